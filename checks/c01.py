"""C01 — stepping a script follows Bitcoin's script rules at every operation.

Events  : Instance::parse_script verdict, full state after every Instance::step(), ContinueScript outcome.
Oracle  : ref.script.Session stepped in lock-step (stack, alt stack, condition stack, op count after
          each op; outcome / error / failing op at the end); refusal before execution outside the domain.
"""
import sys, os, argparse, json, zlib
sys.path.insert(0, os.path.dirname(os.path.dirname(os.path.abspath(__file__))))
from vf.common import *
from vf import build as vbuild
from ref.script import *
from checks import gen, lockstep
from checks.lockstep import case_cmds, parse_events, compare_session, Ev

PROP = 'C01'
SVS = [BASE, WITNESS_V0, TAPSCRIPT]
SVNAME = {0: 'base', 1: 'v0', 3: 'tapscript'}


def has_success_op(script):
    ops = decode_all(script)
    if ops is None:
        # consensus scans until the first undecodable op; an OP_SUCCESS before it still wins
        pc = 0
        while True:
            r = get_op(script, pc)
            if r is None:
                return False
            if is_op_success(r[0]):
                return True
            pc = r[2]
    return any(is_op_success(o) for o, d in ops)


def gen_cases(job):
    layer, idx, n, tier = job
    rng = sub_rng(PROP, layer, idx)
    cases = []
    if layer == 'exh1':
        toks, last = gen.alphabet()
        toks = [t for t in toks if not (len(t) == 1 and t[0] in gen.SIGOPS)]
        k = 0
        for t in toks + last:
            for sti, st in enumerate(gen.EXH_STACKS):
                for sv in SVS:
                    for fi, fl in enumerate(gen.EXH_FLAGS):
                        if k % n == idx:
                            cases.append(dict(script=t, stack=st, flags=fl, sv=sv, layer=layer))
                        k += 1
    elif layer == 'exh2':
        toks, last = gen.alphabet()
        toks = [t for t in toks if not (len(t) == 1 and t[0] in gen.SIGOPS)]
        seconds = toks + last
        # job = (layer, idx, (nchunks, stride), tier): complete enumeration when stride == 1, else a seeded
        # stratified slice: every (first, second) pair is kept, one (stack, sv, flags) combination in `stride`
        nch, stride = n
        k = 0
        combos = [(st, sv, fl) for st in gen.EXH_STACKS for sv in SVS for fl in gen.EXH_FLAGS]
        for ai, a in enumerate(toks):
            if ai % nch != idx:
                continue
            for b in seconds:
                off = rng.randrange(stride)
                for ci in range(off, len(combos), stride):
                    st, sv, fl = combos[ci]
                    cases.append(dict(script=a + b, stack=st, flags=fl, sv=sv, layer=layer))
    elif layer == 'deep':
        for i in range(n):
            sv = rng.choice(SVS)
            fl = gen.rnd_flags(rng)
            st = gen.rnd_stack(rng)
            nops = rng.choice([3, 6, 10, 15, 25, 40, 60])
            s = gen.gen_deep(rng, sv, fl, nops, st)
            cases.append(dict(script=s, stack=st, flags=fl, sv=sv, layer=layer))
    elif layer == 'rand':
        for i in range(n):
            sv = rng.choice(SVS)
            fl = gen.rnd_flags(rng)
            st = gen.rnd_stack(rng)
            s = gen.gen_random_ops(rng)
            cases.append(dict(script=s, stack=st, flags=fl, sv=sv, layer=layer))
    elif layer == 'bytes':
        for i in range(n):
            sv = rng.choice(SVS)
            fl = gen.rnd_flags(rng)
            st = gen.rnd_stack(rng)
            s = gen.gen_bytes(rng)
            cases.append(dict(script=s, stack=st, flags=fl, sv=sv, layer=layer))
    elif layer == 'succ':
        # scriptSig followed by a scriptPubKey (legacy spend shape): consensus rules at the seam - each script must balance
        # its conditionals on its own, the alt stack is not carried over, the op count starts again
        for i in range(n):
            fl = gen.rnd_flags(rng) & ~F["SIGPUSHONLY"]
            if rng.random() < 0.25:
                fl |= F["SIGPUSHONLY"]
            st = []
            k = rng.random()
            sig = gen.strip_sigops(gen.gen_deep(rng, BASE, fl, rng.choice([1, 2, 4, 8]), [], fail_keep=0.05))
            # run the reference on the scriptSig to know the stack the scriptPubKey starts from
            it = Interp(sig, [], fl, BASE)
            ok = True
            try:
                while not it.at_end():
                    it.step()
            except (ScriptFail, NumErr):
                ok = False
            start = list(it.stack) if ok else []
            spk = gen.strip_sigops(gen.gen_deep(rng, BASE, fl, rng.choice([1, 3, 8, 20]), start, fail_keep=0.2))
            if k < 0.15:
                sig += bytes([OP_1, OP_IF])                 # conditional left open by the scriptSig ...
                spk = bytes([OP_ENDIF]) + spk                 # ... and closed by the scriptPubKey
            elif k < 0.3:
                sig += bytes([OP_5, OP_TOALTSTACK])
                spk = bytes([OP_FROMALTSTACK, OP_DROP]) + spk
            elif k < 0.4:
                sig = bytes([OP_NOP]) * rng.choice([150, 200, 201]) + sig
                spk = bytes([OP_NOP]) * rng.choice([100, 200, 201, 202]) + spk
            if is_p2sh(spk) or not spk:
                spk = bytes([OP_NOP]) + spk
            if k >= 0.4 and k < 0.55:
                # a pay-to-script-hash output: the scriptSig's last item is the redeem script; the scriptSig is push-only or not,
                # the hash matches or not - the push-only rule is applied only after the scriptPubKey has succeeded
                redeem = gen.strip_sigops(gen.gen_deep(rng, BASE, fl, rng.choice([1, 3, 6]), [], fail_keep=0.1))[:500] or bytes([OP_1])
                sig = rng.choice([b'', bytes([OP_1]), bytes([OP_1, OP_DROP]), bytes([OP_NOP]), bytes([OP_2, OP_3, OP_ADD]), bytes([OP_RETURN]), bytes([OP_0, OP_VERIFY])]) + push_data(redeem)
                h = hash160(redeem) if rng.random() < 0.8 else bytes(20)
                spk = bytes([OP_HASH160, 20]) + h + bytes([OP_EQUAL])
            cases.append(dict(script=sig, stack=st, flags=fl, sv=BASE, layer=layer, succ=spk))
    elif layer == 'order':
        # which error wins when two rules are broken by the same operation: the operation count is checked before the disabled-opcode
        # rule, both before anything is executed, also inside a branch that is not taken (deterministic family)
        dis = [OP_CAT, OP_SUBSTR, OP_LEFT, OP_RIGHT, OP_INVERT, OP_AND, OP_OR, OP_XOR, OP_2MUL, OP_2DIV, OP_MUL, OP_DIV, OP_MOD, OP_LSHIFT, OP_RSHIFT]
        others = [OP_VERIF, OP_VERNOTIF, OP_RESERVED, OP_VER, OP_RESERVED1, OP_RESERVED2, 0xbb, OP_NOP1, OP_CHECKSIGADD, OP_RETURN]
        for op in dis + others:
            for pre in (199, 200, 201):
                for sv in (BASE, WITNESS_V0):
                    for fl in (STANDARD, 0):
                        cases.append(dict(script=bytes([OP_NOP]) * pre + bytes([op]), stack=[b'\x01', b'\x01'], flags=fl, sv=sv, layer=layer))
                        cases.append(dict(script=bytes([OP_0, OP_IF]) + bytes([OP_NOP]) * (pre - 1) + bytes([OP_ENDIF, op]), stack=[b'\x01', b'\x01'], flags=fl, sv=sv, layer=layer))
                        cases.append(dict(script=bytes([OP_0, OP_IF]) + bytes([OP_NOP]) * (pre - 1) + bytes([op, OP_ENDIF]), stack=[b'\x01', b'\x01'], flags=fl, sv=sv, layer=layer))
        # a push above the size limit as the 202nd operation / in an unexecuted branch
        for pre in (200, 201):
            for sv in (BASE, WITNESS_V0):
                big = bytes([OP_PUSHDATA2, 521 & 255, 521 >> 8]) + b'z' * 521
                cases.append(dict(script=bytes([OP_NOP]) * pre + bytes([OP_1, OP_IF]) + big + bytes([OP_ENDIF]), stack=[], flags=STANDARD, sv=sv, layer=layer))
        cases = [c for i, c in enumerate(cases) if i % n == idx]
    elif layer == 'p2sh':
        # plain scripts that are exactly the P2SH template: the last stack item is the serialized script
        for i in range(n):
            fl = gen.rnd_flags(rng)
            sv = rng.choice([BASE, BASE, WITNESS_V0])
            inner = gen.gen_deep(rng, sv, fl, rng.choice([1, 3, 8, 20]), []) if rng.random() < 0.8 else gen.gen_bytes(rng)
            if len(inner) > 520:
                inner = inner[:520]
            h = hash160(inner)
            if rng.random() < 0.1:
                h = bytes(20)
            st = gen.rnd_stack(rng)[:3] + [inner]
            if rng.random() < 0.05:
                st = []
            cases.append(dict(script=bytes([OP_HASH160, 20]) + h + bytes([OP_EQUAL]), stack=st, flags=fl, sv=sv, layer=layer))
    for i, c in enumerate(cases):
        c['id'] = '%s.%d.%d' % (layer, idx, i)
        if layer == 'succ':
            pass
        elif layer != 'p2sh':
            c['script'] = gen.strip_sigops(c['script'])
        else:
            c['stack'] = c['stack'][:-1] + [gen.strip_sigops(c['stack'][-1])] if c['stack'] else c['stack']
            if c['stack']:
                h = hash160(c['stack'][-1])
                if c['script'][2:22] != bytes(20):
                    c['script'] = c['script'][:2] + h + c['script'][22:]
    return cases


def opname(o):
    if o is None:
        return 'none'
    if 1 <= o <= 75:
        return 'PUSH'
    return OPNAME.get(o, 'OP_x%02x' % o)


def judge(case, evs, part, cont_evs=None):
    """evs: parsed events of the stepping run; cont_evs: of the ContinueScript run (or None)"""
    script, stack, flags, sv = case['script'], case['stack'], case['flags'], case['sv']
    wit = dict(id=case['id'], script=script.hex(), stack=[x.hex() for x in stack] if len(stack) < 40 else ['%d items' % len(stack), stack[0].hex()], flags=flags, sv=sv, succ=case.get('succ', b'').hex())
    part.evaluations += 1
    sc = [e for k, e in evs if k == 'SC']
    if any(k == 'CRASH' for k, e in evs):
        return   # reported through the crash path
    if not sc:
        part.inconc('no-SC-event')
        return
    accepted = sc[0][1] == '1'
    dom = in_domain(script)
    part.count('layer', case['layer'])
    if not dom:
        part.count('outcome', 'refused(outside-domain)')
        if accepted:
            part.violation('accepts-script-outside-domain', wit)
        else:
            part.nontrivial.add(nt_hash('refuse', script))
        return
    if not accepted:
        part.violation('refuses-script-in-domain', wit)
        return
    u = [e for k, e in evs if k == 'U']
    if not u:
        part.inconc('no-setup-event')
        return
    if sv in (BASE, WITNESS_V0) and len(script) > MAX_SCRIPT_SIZE:
        if u[0].ret:
            part.violation('oversize-script-accepted', wit)
        return
    if not u[0].ret:
        if sv == TAPSCRIPT and len(stack) > MAX_STACK_SIZE and u[0].err == 'STACK_SIZE':
            part.count('outcome', 'fail:STACK_SIZE(setup)')
            return
        pre = Session(script, stack, flags, sv, successor=case.get('succ', b'')).prefail
        if pre and u[0].err == pre:
            # e.g. SIGPUSHONLY with a scriptSig that is not push-only: refused before anything is evaluated
            part.count('outcome', 'fail:%s(setup)' % pre)
            part.nontrivial.add(nt_hash('pre', script, flags, case.get('succ', b'')))
            return
        part.violation('setup-fails:%s' % u[0].err, wit)
        return
    steps = [e for k, e in evs if k == 'S']
    if sv == TAPSCRIPT and has_success_op(script):
        # BIP342: any OP_SUCCESSx makes the script succeed unconditionally (or fail as discouraged)
        part.count('outcome', 'op_success')
        want_fail = bool(flags & F["DISCOURAGE_OP_SUCCESS"])
        last = steps[-1] if steps else u[0]
        impl_ok = last.done and last.ret and last.err == 'OK'
        if want_fail:
            if impl_ok or last.err != 'DISCOURAGE_OP_SUCCESS':
                part.violation('tapscript-op-success:not-discouraged', wit)
        elif not impl_ok:
            part.violation('tapscript-op-success:not-honoured', wit)
        return
    sess = Session(script, stack, flags, sv, successor=case.get('succ', b''), allow_disabled=bool(case.get('allow')))
    if sess.prefail:
        # tapscript with more than 1000 initial stack items: must be refused before anything executes
        part.violation('tapscript-initial-stack-over-1000-not-refused' if sess.prefail == 'STACK_SIZE' else 'not-refused-before-execution:' + sess.prefail, wit)
        return
    if sess.done:
        if steps or not u[0].done:
            part.violation('empty-script-not-done', wit)
        part.count('outcome', 'empty')
        return
    if u[0].done:
        part.violation('done-before-execution', wit)
        return
    verdict, info = compare_session(steps, sess)
    nonpush = sum(1 for o in info['ops'] if o > OP_16)
    for o in info['ops']:
        part.count('ops_executed', opname(o))
    part.count('outcome', info['outcome'] or 'mismatch')
    part.count('sigversion', SVNAME[sv])
    part.count('step_events', 'n', info['steps'])
    if verdict:
        lastop = opname(sess.cur.last[0]) if sess.cur.last else 'none'
        wit['step'] = info['steps']
        wit['ref_stack'] = [x.hex() if isinstance(x, bytes) else str(x) for x in sess.cur.stack]
        wit['impl_event'] = steps[info['steps'] - 1].raw if 0 < info['steps'] <= len(steps) else None
        part.violation('%s:%s%s' % (verdict, lastop, ':tapscript' if sv == TAPSCRIPT else ''), wit)
        return
    if nonpush >= 3 or (info['outcome'] or '').startswith('fail'):
        part.nontrivial.add(nt_hash(script, tuple(stack), flags, sv, case.get('succ') or None))
    part.sample(dict(script=script.hex()[:300], stack=[x.hex() for x in stack][:12], flags=flags, sv=SVNAME[sv], steps=info['steps'], outcome=info['outcome']))
    # run-to-completion twin
    if cont_evs is not None:
        c = [e for k, e in cont_evs if k == 'C']
        if not c:
            if not any(k == 'CRASH' for k, e in cont_evs):
                part.inconc('no-C-event')
            return
        c = c[0]
        part.count('cont_runs', 'n')
        out = info['outcome']
        if out == 'success':
            if not (c.ret and c.done and lockstep.stacks_equal(sess.cur.stack, c.stack)):
                part.violation('continue:differs-from-stepping:success', wit)
        elif out and out.startswith('fail:'):
            code = out[5:]
            ek = lockstep.exc_kind(c.exc.replace('UNCAUGHT:', '')) if c.exc else None
            if c.ret:
                part.violation('continue:succeeds-where-stepping-fails', wit)
            elif code.startswith('NUM_'):
                if ek != code:
                    part.violation('continue:error-differs', wit)
            elif code != 'ANY' and (c.err != code or ek):
                part.violation('continue:error-differs', wit)


def execute(bindir, cases, part, tag='c01', post=None):
    """run the cases through the harness (stepping run + ContinueScript twin) and judge them"""
    wd = scratch(tag)
    try:
        hc = []
        for c in cases:
            extra = ['SS %s' % hexs(c['succ'])] if c.get('succ') else []
            hc.append((c['id'], case_cmds(c['id'], c['script'], c['stack'], c['flags'], c['sv'], allow=bool(c.get('allow')), extra=extra)))
            if c['layer'] in ('deep', 'p2sh', 'rand', 'limit', 'succ') or (c['layer'].startswith('exh') and zlib.crc32(c['id'].encode()) % 7 == 0):
                c['cont'] = True
                hc.append((c['id'] + '/c', case_cmds(c['id'] + '/c', c['script'], c['stack'], c['flags'], c['sv'], allow=bool(c.get('allow')), tail=('C',), extra=extra)))
            # "hovering" twin: every step is taken, taken back and taken again - the trace must be the same
            if c['layer'] in ('deep', 'limit', 'succ', 'p2sh') and zlib.crc32(c['id'].encode()) % 4 == 1:
                c['hover'] = True
                hc.append((c['id'] + '/h', case_cmds(c['id'] + '/h', c['script'], c['stack'], c['flags'], c['sv'], allow=bool(c.get('allow')), tail=('CSH',), extra=extra)))
        events, crashes, hangs = run_harness_cases(bindir, hc, wd)
        bycase = {c['id']: c for c in cases}
        for cr in crashes:
            base = cr.case_id.split('/')[0]
            c = bycase.get(base)
            part.violation('crash:' + cr.key, dict(id=cr.case_id, script=c['script'].hex()[:4000] if c else None, stack=[x.hex() for x in c['stack']][:50] if c else None,
                                                    flags=c['flags'] if c else None, sv=c['sv'] if c else None, log=cr.log[-1500:]))
        for h in hangs:
            part.violation('hang', dict(id=h))
        for c in cases:
            evs = parse_events(events.get(c['id'], []))
            cevs = parse_events(events.get(c['id'] + '/c', [])) if c.get('cont') else None
            judge(c, evs, part, cevs)
            if c.get('hover'):
                hv = parse_events(events.get(c['id'] + '/h', []))
                before = len(part.violations)
                judge(dict(c, id=c['id'] + '/h'), [(k, e) for k, e in hv if k != 'HV'], part, None)
                part.violations[before:] = [(k + ':after-rewind', w) for k, w in part.violations[before:]]
                part.count('hover_runs', 'n')
            if post:
                post(c, evs, part)
    finally:
        cleanup_scratch(wd)


def worker(job):
    bindir = job[-1]
    job = job[:-1]
    part = Partial()
    execute(bindir, gen_cases(job), part)
    return part.dump()


def plan(tier):
    jobs = []
    if tier == 'quick':
        jobs += [('exh1', i, 8, tier) for i in range(8)]
        jobs += [('exh2', i, (32, 48), tier) for i in range(32)]
        jobs += [('deep', i, 1500, tier) for i in range(24)]
        jobs += [('rand', i, 1000, tier) for i in range(8)]
        jobs += [('bytes', i, 1000, tier) for i in range(8)]
        jobs += [('p2sh', i, 500, tier) for i in range(8)]
        jobs += [('succ', i, 800, tier) for i in range(8)]
        jobs += [('order', i, 4, tier) for i in range(4)]
    else:
        jobs += [('exh1', i, 8, tier) for i in range(8)]
        jobs += [('exh2', i, (240, 1), tier) for i in range(240)]
        jobs += [('deep', i, 1000, tier) for i in range(300)]
        jobs += [('rand', i, 1000, tier) for i in range(60)]
        jobs += [('bytes', i, 1000, tier) for i in range(60)]
        jobs += [('p2sh', i, 500, tier) for i in range(40)]
        jobs += [('succ', i, 1000, tier) for i in range(60)]
        jobs += [('order', i, 4, tier) for i in range(4)]
    return jobs


def replay(path, bindir):
    d = json.load(open(path))
    for w in d['witnesses']:
        if not w or 'script' not in w:
            continue
        c = dict(id='replay', script=bytes.fromhex(w['script']), stack=[bytes.fromhex(x) for x in w['stack']], flags=w['flags'], sv=w['sv'], layer='replay')
        wd = scratch('c01r')
        events, crashes, hangs = run_harness_cases(bindir, [('replay', case_cmds('replay', c['script'], c['stack'], c['flags'], c['sv']))], wd)
        cleanup_scratch(wd)
        print('--- implementation events')
        for l in events.get('replay', []):
            print('   ', l)
        print('--- reference')
        s = Session(c['script'], c['stack'], c['flags'], c['sv'])
        while not s.done:
            r = s.step()
            print('   ', r, [x.hex() if isinstance(x, bytes) else x for x in s.cur.stack], s.cur.vfstate(), s.cur.nop)
            if r[0] != 'ok':
                break
        part = Partial()
        judge(c, parse_events(events.get('replay', [])), part)
        print('--- verdict:', [k for k, _ in part.violations] or 'agrees')
        for cr in crashes:
            print('CRASH', cr.key)
    return 0


def main():
    ap = argparse.ArgumentParser()
    ap.add_argument('--tier', default=os.environ.get('VERIF_TIER', 'quick'))
    ap.add_argument('--replay')
    a = ap.parse_args()
    bindir = vbuild.build('asan')
    if a.replay:
        return replay(a.replay, bindir)
    rep = Reporter(PROP, a.tier)
    jobs = [j + (bindir,) for j in plan(a.tier)]
    for r in parallel(worker, jobs):
        rep.merge(r)
    steps = rep.tables.get('step_events', {}).get('n', 0)
    return rep.finish(
        rule='cases = (script, initial stack, flag word, sigversion); layers: exhaustive 1-op and 2-op scripts over the whole opcode alphabet '
             '(signature opcodes excluded: C02), model-steered deep scripts, random op soups, byte-level mutations (refusal clause), P2SH-template scripts, scriptSig+scriptPubKey pairs (seam rules). '
             'non-trivial = distinct case whose trace executed >=3 non-push operations or ended in a script error, or a distinct out-of-domain script that was refused',
        assumptions=['ref/script.py is a faithful transcription of the consensus script rules (anchored by ./check selftest)',
                     'signature opcodes are exercised by C02, not here'],
        extra={'step_events_compared': steps}, min_events=1000, observed=steps)


if __name__ == '__main__':
    main_wrapper(main)
