"""C02 — signature opcodes accept exactly the signatures valid for the BIP-defined digest.

Events : Instance::step() traces with a transaction context, plus the digest each signature check actually
         computed and the per-signature accept/reject lines of the CHECKMULTISIG loop (captured log lines).
Oracle : ref.sign builds and signs the contexts; ref.script.Session with ref.verify.TxChecker (legacy / BIP143 /
         BIP341-342 digests, lax-DER ECDSA, BIP340) prescribes stack and error after every operation; digest
         equality is a second, sharper oracle.
"""
import sys, os, argparse, json, copy
sys.path.insert(0, os.path.dirname(os.path.dirname(os.path.abspath(__file__))))
from vf.common import *
from vf import build as vbuild
from ref.script import *
from ref import secp, sighash, taproot, sign as rsign, tx as rtx
from ref.verify import TxChecker
from checks import lockstep
from checks.lockstep import parse_events, compare_session, Ev

PROP = 'C02'
SVN = {0: 'base', 1: 'v0', 2: 'taproot', 3: 'tapscript'}
SIGFLAGS = ["DERSIG", "LOW_S", "STRICTENC", "NULLFAIL", "NULLDUMMY", "WITNESS_PUBKEYTYPE", "CONST_SCRIPTCODE", "DISCOURAGE_UPGRADABLE_PUBKEYTYPE"]


def zlib_crc(x):
    import zlib
    return zlib.crc32(x.encode())


def rnd_flags(rng):
    r = rng.random()
    if r < 0.3:
        return STANDARD
    if r < 0.4:
        return 0
    f = STANDARD if rng.random() < 0.6 else 0
    for n in SIGFLAGS:
        if rng.random() < 0.3:
            f ^= F[n]
    return f


def amount_str(a):
    return '%d.%08d' % (a // 10 ** 8, a % 10 ** 8)


def corrupt(rng, b, kind=None):
    b = bytearray(b)
    if not b:
        return bytes([1])
    k = kind or rng.choice(['bit', 'bit', 'byte', 'trunc', 'extend', 'zero'])
    if k == 'bit':
        b[rng.randrange(len(b))] ^= 1 << rng.randrange(8)
    elif k == 'byte':
        b[rng.randrange(len(b))] = rng.randrange(256)
    elif k == 'trunc':
        b = b[:-1]
    elif k == 'extend':
        b.append(rng.randrange(256))
    else:
        b = bytearray(len(b))
    return bytes(b)


def der_variants(rng, sk, digest, ht):
    """valid-by-consensus but oddly encoded, and invalid DER encodings"""
    r, s = secp.ecdsa_sign_rs(sk, digest, low_s=True)
    kind = rng.choice(['high-s', 'pad-r', 'pad-s', 'long-len', 'trailing', 'neg-r', 'ok'])
    if kind == 'high-s':
        return secp.der_sig(r, secp.n - s) + bytes([ht]), kind
    if kind in ('pad-r', 'pad-s'):
        rb = secp.der_int(r)
        sb = secp.der_int(s)
        if kind == 'pad-r':
            rb = b'\x02' + bytes([rb[1] + 1]) + b'\x00' + rb[2:]
        else:
            sb = b'\x02' + bytes([sb[1] + 1]) + b'\x00' + sb[2:]
        body = rb + sb
        return b'\x30' + bytes([len(body)]) + body + bytes([ht]), kind
    if kind == 'long-len':
        body = secp.der_int(r) + secp.der_int(s)
        return b'\x30\x81' + bytes([len(body)]) + body + bytes([ht]), kind
    if kind == 'trailing':
        return secp.der_sig(r, s) + b'\x00' + bytes([ht]), kind
    if kind == 'neg-r':
        rb = r.to_bytes(32, 'big')
        body = b'\x02\x20' + (bytes([rb[0] | 0x80]) + rb[1:]) + secp.der_int(s)
        return b'\x30' + bytes([len(body)]) + body + bytes([ht]), kind
    return secp.der_sig(r, s) + bytes([ht]), kind


def pub_variant(rng, sk):
    k = rng.choice(['c', 'c', 'c', 'u', 'hybrid', 'garbage', 'short', 'offcurve'])
    P = secp.aff(secp.jmul(secp.G, sk))
    if k == 'c':
        return secp.pub_from_sec(sk), k
    if k == 'u':
        return secp.pub_from_sec(sk, False), k
    if k == 'hybrid':
        return bytes([6 + (P[1] & 1)]) + P[0].to_bytes(32, 'big') + P[1].to_bytes(32, 'big'), k
    if k == 'garbage':
        return bytes([rng.choice([0, 1, 5, 0xff])]) + rsign.rnd_bytes(rng, 32), k
    if k == 'short':
        return secp.pub_from_sec(sk)[:rng.choice([0, 1, 20, 32])], k
    return b'\x02' + (5).to_bytes(32, 'big'), k   # x=5 is not on the curve


def build_context(rng, sv):
    """spending tx (1..4 inputs; single input for Schnorr: interface limit), funding tx for the chosen input"""
    nin = 1 if sv in (TAPROOT, TAPSCRIPT) and rng.random() < 0.93 else rng.choice([1, 1, 2, 3, 4])
    idx = rng.randrange(nin)
    amount = rng.choice([0, 1, 546, 123456789, 21 * 10 ** 14])
    fund_spk = rng.choice([rsign.spk_p2wpkh(secp.pub_from_sec(9)), rsign.spk_p2tr(secp.xonly_from_sec(11)), b'\x51'])
    nfo = rng.choice([1, 2, 3])
    fvout = rng.randrange(nfo)
    outs = [(rng.choice([1, 5000, 10 ** 9]), b'\x51') for _ in range(nfo)]
    outs[fvout] = (amount, fund_spk)
    fund = rsign.funding_tx(rng, outs)
    fid = rtx.txid(fund)
    prevouts = []
    for i in range(nin):
        if i == idx:
            prevouts.append((fid, fvout))
        else:
            prevouts.append((rsign.rnd_bytes(rng, 32), rng.randrange(3)))
    nout = rng.choice([0, 1, 1, 2, 3, nin, max(0, idx)])   # incl. idx >= #outputs (SIGHASH_SINGLE rule)
    tx = rsign.spending_tx(rng, prevouts, nout=nout)
    return dict(tx=tx, idx=idx, amount=amount, fund=fund, fund_spk=fund_spk, nin=nin)


def gen_case(rng, cid):
    sv = rng.choice([BASE, BASE, WITNESS_V0, WITNESS_V0, TAPSCRIPT, TAPSCRIPT, TAPROOT])
    ctx = build_context(rng, sv)
    tx, idx, amount = ctx['tx'], ctx['idx'], ctx['amount']
    flags = rnd_flags(rng)
    c = dict(id=cid, sv=sv, flags=flags, ctx=ctx, annex=None, weight=None, notes=[])
    sk = rsign.rnd_sk(rng)
    if sv in (BASE, WITNESS_V0):
        # all 256 hash-type bytes matter: undefined ones (extra bits 0x20/0x40, low bits 0 or > 3) still select ALL/NONE/SINGLE
        # by their low five bits when STRICTENC is off
        ht = rng.choice([1, 1, 2, 3, 0x81, 0x82, 0x83, rng.randrange(256), rng.randrange(256), 0, 4, 0x80, 0xff,
                         rng.choice([0x22, 0x23, 0x42, 0x43, 0x62, 0x63, 0xa2, 0xa3, 0xc2, 0xc3, 0xe2, 0xe3, 0x21, 0x41, 0x61, 0xe1, 0x1f, 0x20, 0x40, 0x60, 0x9f])])
        if (ht & ~0x80) not in (1, 2, 3) and rng.random() < 0.7:
            flags &= ~F["STRICTENC"]
            c['flags'] = flags
        pub, pk_kind = pub_variant(rng, sk)
        pat = rng.choice(['checksig', 'checksig', 'verify', 'codesep-before', 'codesep-after-key', 'codesep-unexecuted', 'two-codeseps', 'sig-in-script', 'multisig', 'multisig', 'multisig-verify'])
        c['pattern'] = pat

        def dig(scriptcode, h):
            if sv == BASE:
                return sighash.sighash_legacy(tx, idx, scriptcode, h)
            return sighash.sighash_v0(tx, idx, scriptcode, h, amount)

        def legacy_code(script, begin):
            return script[begin:]
        if pat.startswith('multisig'):
            n = rng.choice([1, 2, 3, 3, 5, 20])
            k = rng.randint(0, min(n, 4))
            sks = [rsign.rnd_sk(rng) for _ in range(n)]
            pubs = [secp.pub_from_sec(s, rng.random() < 0.85) for s in sks]
            if rng.random() < 0.1:
                pubs[rng.randrange(n)] = pub_variant(rng, sks[0])[0]
            script = push_num(k) + b''.join(push_only(p) for p in pubs) + push_num(n) + bytes([OP_CHECKMULTISIG if pat == 'multisig' else OP_CHECKMULTISIGVERIFY])
            if pat != 'multisig':
                script += bytes([OP_1])
            order = sorted(rng.sample(range(n), k))
            mode = rng.choice(['in-order', 'in-order', 'in-order', 'reversed', 'wrong-key', 'one-corrupt', 'one-empty'])
            sigs = []
            for j in order:
                h = ht if rng.random() < 0.3 else 1
                sigs.append(rsign.sign_ecdsa(sks[j], dig(script, h), h))
            if mode == 'reversed':
                sigs.reverse()
            elif mode == 'wrong-key' and sigs:
                sigs[0] = rsign.sign_ecdsa(rsign.rnd_sk(rng), dig(script, 1), 1)
            elif mode == 'one-corrupt' and sigs:
                j = rng.randrange(len(sigs))
                sigs[j] = corrupt(rng, sigs[j])
            elif mode == 'one-empty' and sigs:
                sigs[rng.randrange(len(sigs))] = b''
            dummy = b'' if rng.random() < 0.85 else rng.choice([b'\x01', b'\x00', b'ab'])
            c['script'] = script
            c['stack'] = [dummy] + sigs
            c['notes'].append('%d-of-%d %s' % (k, n, mode))
            return c
        if pat == 'checksig':
            script = push_only(pub) + bytes([OP_CHECKSIG])
            code = script
        elif pat == 'verify':
            script = push_only(pub) + bytes([OP_CHECKSIGVERIFY, OP_1])
            code = script
        elif pat == 'codesep-before':
            script = bytes([OP_1, OP_DROP, OP_CODESEPARATOR]) + push_only(pub) + bytes([OP_CHECKSIG])
            code = script[3:]
        elif pat == 'codesep-after-key':
            script = push_only(pub) + bytes([OP_CODESEPARATOR, OP_CHECKSIG])
            code = script[len(push_only(pub)) + 1:]
        elif pat == 'codesep-unexecuted':
            script = bytes([OP_0, OP_IF, OP_CODESEPARATOR, OP_ENDIF]) + push_only(pub) + bytes([OP_CHECKSIG])
            code = script
        elif pat == 'two-codeseps':
            script = bytes([OP_CODESEPARATOR, OP_1, OP_IF, OP_CODESEPARATOR, OP_ENDIF]) + push_only(pub) + bytes([OP_CODESEPARATOR, OP_NOP, OP_CHECKSIG])
            code = script[len(script) - 2:]
        else:  # sig-in-script: the signature push is part of the script (FindAndDelete in legacy)
            script = None
        if script is not None:
            variant = rng.choice(['valid', 'valid', 'valid', 'der-variant', 'corrupt', 'wrong-key', 'wrong-tx', 'wrong-amount', 'empty'])
            if variant == 'der-variant':
                sig, kind = der_variants(rng, sk, dig(code, ht), ht)
                c['notes'].append(kind)
            else:
                sig = rsign.sign_ecdsa(sk, dig(code, ht), ht)
            if variant == 'corrupt':
                sig = corrupt(rng, sig)
            elif variant == 'wrong-key':
                sig = rsign.sign_ecdsa(rsign.rnd_sk(rng), dig(code, ht), ht)
            elif variant == 'wrong-tx':
                mutate_tx(rng, ctx)
            elif variant == 'wrong-amount':
                # the spent output is worth something else than what was signed (the funding transaction says so too: it is
                # the authority on the amount when it is supplied)
                ctx['amount'] = amount + 1
                refund(ctx)
            elif variant == 'empty':
                sig = b''
            c['script'] = script
            c['stack'] = [sig]
            c['notes'].append(variant + '/' + pk_kind)
            return c
        # sig-in-script
        tail = push_only(pub) + bytes([OP_CHECKSIG])
        code_wo = tail
        sig = rsign.sign_ecdsa(sk, dig(code_wo if sv == BASE else b'', ht), ht)
        if sv == WITNESS_V0:
            # no FindAndDelete in segwit: the digest covers the script including the signature push -> cannot be valid;
            # still a useful negative case
            pass
        c['script'] = push_only(sig) + tail
        c['stack'] = []
        c['notes'].append('findanddelete')
        return c
    if sv == TAPROOT:
        # key path presented as "<program> OP_CHECKSIG"
        ht = rng.choice([0, 0, 1, 2, 3, 0x81, 0x82, 0x83, 4, 0x80, 0x84, rng.randrange(256)])
        q = secp.xonly_from_sec(sk)
        ctx['fund_spk'] = rsign.spk_p2tr(q)
        refund(ctx)
        annex = None
        if rng.random() < 0.25:
            annex = b'\x50' + rsign.rnd_bytes(rng, rng.choice([0, 1, 40]))
        c['annex'] = annex
        spent = spent_list(ctx)
        d = sighash.sighash_taproot(ctx['tx'], ctx['idx'], ht, spent, 0, annex) if spent else None
        variant = rng.choice(['valid', 'valid', 'corrupt', 'wrong-key', 'wrong-tx', 'size63', 'explicit-default'])
        if d is None:
            d = b'\x00' * 32
        sig = rsign.sign_schnorr(sk, d, ht)
        if variant == 'corrupt':
            sig = corrupt(rng, sig, 'bit')
        elif variant == 'wrong-key':
            sig = rsign.sign_schnorr(rsign.rnd_sk(rng), d, ht)
        elif variant == 'wrong-tx':
            mutate_tx(rng, ctx)
        elif variant == 'size63':
            sig = sig[:63]
        elif variant == 'explicit-default':
            sig = sig[:64] + b'\x00'
        c['script'] = push_only(q) + bytes([OP_CHECKSIG])
        c['stack'] = [sig]
        ctx['tx'].wit[ctx['idx']] = [sig] + ([annex] if annex is not None else [])
        c['pattern'] = 'keypath'
        c['notes'].append(variant + '/ht=%02x' % ht)
        return c
    # TAPSCRIPT
    nk = rng.choice([1, 1, 2, 3])
    sks = [rsign.rnd_sk(rng) for _ in range(nk)]
    pks = [secp.xonly_from_sec(s) for s in sks]
    pat = rng.choice(['checksig', 'checksigadd', 'checksigadd', 'codesep', 'codesep-branch', 'upgradable-key', 'budget'])
    c['pattern'] = pat
    annex = b'\x50' + rsign.rnd_bytes(rng, rng.choice([0, 3])) if rng.random() < 0.2 else None
    c['annex'] = annex
    hts = [rng.choice([0, 0, 1, 2, 3, 0x81, 0x82, 0x83, 0x84, 4, rng.randrange(256)]) for _ in range(nk)]
    if pat == 'checksig':
        script = push_only(pks[0]) + bytes([OP_CHECKSIG])
        positions = [0xffffffff]
        nk = 1
    elif pat == 'checksigadd':
        script = push_only(pks[0]) + bytes([OP_CHECKSIG])
        for pk in pks[1:]:
            script += push_only(pk) + bytes([OP_CHECKSIGADD])
        script += push_num(rng.choice([nk, nk, max(0, nk - 1)])) + bytes([OP_NUMEQUAL])
        positions = [0xffffffff] * nk
    elif pat == 'codesep':
        # OP_1 OP_DROP CODESEP(pos 2) pk CHECKSIG
        script = bytes([OP_1, OP_DROP, OP_CODESEPARATOR]) + push_only(pks[0]) + bytes([OP_CHECKSIG])
        positions = [2]
        nk = 1
    elif pat == 'codesep-branch':
        # 0 IF CODESEP(2, unexecuted) ENDIF 1 IF CODESEP(6) ENDIF pk CHECKSIG
        script = bytes([OP_0, OP_IF, OP_CODESEPARATOR, OP_ENDIF, OP_1, OP_IF, OP_CODESEPARATOR, OP_ENDIF]) + push_only(pks[0]) + bytes([OP_CHECKSIG])
        positions = [6]
        nk = 1
    elif pat == 'upgradable-key':
        key = rng.choice([b'\x05' + pks[0], pks[0][:31], pks[0] + b'\x00\x01', b'\x01', b''])
        script = push_only(key) + bytes([OP_CHECKSIG])
        positions = [0xffffffff]
        nk = 1
    else:  # budget
        nk = rng.choice([2, 3, 4])
        sks = [rsign.rnd_sk(rng) for _ in range(nk)]
        pks = [secp.xonly_from_sec(s) for s in sks]
        hts = [0] * nk
        script = push_only(pks[0]) + bytes([OP_CHECKSIG])
        for pk in pks[1:]:
            script += push_only(pk) + bytes([OP_CHECKSIGADD])
        positions = [0xffffffff] * nk
    c['script'] = script
    leaf = taproot.tapleaf_hash(script)
    c['leaf'] = leaf
    ctx['fund_spk'] = rsign.spk_p2tr(pks[0])   # any v1 program: the commitment is not part of this property
    refund(ctx)
    spent = spent_list(ctx)
    sigs = []
    variant = rng.choice(['valid', 'valid', 'valid', 'corrupt', 'wrong-key', 'wrong-tx', 'one-empty', 'size'])
    for j in range(nk):
        d = sighash.sighash_taproot(ctx['tx'], ctx['idx'], hts[j], spent, 1, annex, leaf, positions[j]) if spent else None
        if d is None:
            d = b'\x11' * 32
        sigs.append(rsign.sign_schnorr(sks[j] if j < len(sks) else 1, d, hts[j]))
    if variant == 'corrupt':
        j = rng.randrange(nk)
        sigs[j] = corrupt(rng, sigs[j], 'bit')
    elif variant == 'wrong-key':
        sigs[rng.randrange(nk)] = rsign.sign_schnorr(rsign.rnd_sk(rng), b'\x22' * 32, 0)
    elif variant == 'wrong-tx':
        mutate_tx(rng, ctx)
    elif variant == 'one-empty':
        sigs[rng.randrange(nk)] = b''
    elif variant == 'size':
        j = rng.randrange(nk)
        sigs[j] = sigs[j][:rng.choice([1, 63, 64])] + rng.choice([b'', b'\x01\x02'])
    # witness stack order: first signature consumed is on top for CHECKSIG; CHECKSIGADD takes (sig num pubkey)
    c['stack'] = list(reversed(sigs))
    ctx['tx'].wit[ctx['idx']] = c['stack'] + [script, b'\xc0' + pks[0]] + ([annex] if annex is not None else [])
    wsize = len(ser_cs_len(len(c['stack']) + 2)) + sum(len(ser_cs_len(len(x))) + len(x) for x in c['stack'] + [script, b'\xc0' + pks[0]])
    c['weight'] = wsize + VALIDATION_WEIGHT_OFFSET
    if pat == 'budget':
        c['weight'] = rng.choice([49, 50, 99, 100, 50 * nk - 1, 50 * nk, 50 * nk + 1])
    c['notes'].append(variant)
    return c


def ser_cs_len(n):
    return rtx.ser_cs(n)


def spent_list(ctx):
    """[(amount, spk)] for every input if known: the debugger only knows the funding tx of one input"""
    if ctx['nin'] != 1:
        return None
    return [(ctx['amount'], ctx['fund_spk'])]


def refund(ctx):
    """re-create the funding tx after its output script changed, and re-point the spending input at it"""
    fund = ctx['fund']
    n = ctx['tx'].vin[ctx['idx']][1]
    outs = list(fund.vout)
    outs[n] = (ctx['amount'], ctx['fund_spk'])
    fund.vout = outs
    ctx['tx'].vin[ctx['idx']][0] = rtx.txid(fund)


def mutate_tx(rng, ctx):
    """change one signed field after signing"""
    tx = ctx['tx']
    k = rng.choice(['version', 'locktime', 'sequence', 'output-value', 'output-script', 'other-input'])
    if k == 'version':
        tx.version = (tx.version + 1) if tx.version < 2 ** 31 - 1 else 1
    elif k == 'locktime':
        tx.locktime = (tx.locktime + 1) & 0xffffffff
    elif k == 'sequence':
        tx.vin[ctx['idx']][3] ^= 1
    elif k == 'output-value' and tx.vout:
        v, s = tx.vout[0]
        tx.vout[0] = (v + 1, s)
    elif k == 'output-script' and tx.vout:
        v, s = tx.vout[-1]
        tx.vout[-1] = (v, s + b'\x51')
    else:
        j = rng.randrange(len(tx.vin))
        if j != ctx['idx']:
            tx.vin[j][1] ^= 1
        else:
            tx.vin[j][3] ^= 0x10


def case_cmds(c):
    ctx = c['ctx']
    tx = ctx['tx']
    amounts = ','.join(amount_str(ctx['amount'] if i == ctx['idx'] else 0) for i in range(len(tx.vin)))
    cmds = ['N ' + c['id'],
            'TX %s' % (amounts + ':' + rtx.ser_tx(tx).hex()).encode().hex(),
            'TI %s -1' % rtx.ser_tx(ctx['fund']).hex().encode().hex(),
            'SV %d' % c['sv'], 'FL %d' % c['flags']]
    if c['sv'] in (TAPROOT, TAPSCRIPT):
        leaf = c.get('leaf')
        ann = 'none' if c.get('annex') is None else sha256(rtx.ser_cs(len(c['annex'])) + c['annex']).hex()
        cmds.append('XD %s %s %s' % (leaf.hex() if leaf else '-', ann, c['weight'] if c.get('weight') is not None else '-'))
    cmds.append('SC ' + hexs(c['script']))
    if c['stack']:
        cmds.append('ST ' + items(c['stack']))
    # a third of the sessions "hover": every step is taken, taken back and taken again - the verdict of a signature check
    # must not depend on how the session got there
    cmds += ['SU', 'CSH' if c.get('hover') else 'CS']
    return cmds


def judge(c, lines, part):
    ctx = c['ctx']
    sv, flags = c['sv'], c['flags']
    wit = dict(id=c['id'], sv=sv, flags=flags, script=c['script'].hex(), stack=[x.hex() for x in c['stack']], tx=rtx.ser_tx(ctx['tx']).hex(), fund=rtx.ser_tx(ctx['fund']).hex(),
               idx=ctx['idx'], amount=ctx['amount'], annex=c['annex'].hex() if c.get('annex') is not None else None, weight=c.get('weight'), pattern=c.get('pattern'), notes=c['notes'], hover=bool(c.get('hover')))
    part.evaluations += 1
    evs = parse_events(lines)
    if any(k == 'CRASH' for k, e in evs):
        return
    ti = [e for k, e in evs if k == 'TI']
    txe = [e for k, e in evs if k == 'TX']
    if not txe or txe[0][1] != '1' or not ti or ti[0][1] != '1':
        part.violation('context-refused', wit)
        return
    if int(ti[0][3]) != ctx['idx']:
        part.violation('wrong-input-selected', wit)
        return
    sc = [e for k, e in evs if k == 'SC']
    if not sc or sc[0][1] != '1':
        ops = decode_all(c['script']) or []
        if any(o == OP_CHECKSIGADD for o, d in ops):
            part.violation('script-with-OP_CHECKSIGADD-refused', wit)
        else:
            part.violation('script-refused', wit)
        return
    spent = spent_list(ctx)
    checker = TxChecker(ctx['tx'], ctx['idx'], ctx['amount'], spent, annex=c.get('annex'), leaf_hash=c.get('leaf'))
    sess = Session(c['script'], c['stack'], flags, sv, checker=checker, weight=c.get('weight'))
    # walk both, comparing state, digests and multisig traces
    steps = []
    pend_h = []
    for k, e in evs:
        if k == 'H':
            pend_h.append(e[1])
        elif k == 'HV':
            pend_h = []          # (digests of the step that was taken back)
        elif k == 'S':
            steps.append((e, pend_h))
            pend_h = []
    i = 0
    nsig = 0
    while not sess.done:
        r = sess.step()
        if i >= len(steps):
            part.violation('impl-stops-early', wit)
            return
        e, hs = steps[i]
        i += 1
        is_op = (r[0] == 'ok' and r[1] == 'op') or (r[0] == 'fail' and r[2] == 'op')
        op = sess.cur.last[0] if (sess.cur.last and is_op) else None
        opn = OPNAME.get(op, 'PUSH')
        # digests
        want = [d for d in sess.cur.sighashes]
        got = [(h[0], bytes.fromhex(h[2:])[::-1]) for h in hs if h[0] in 'es']
        if op in (OP_CHECKSIG, OP_CHECKSIGVERIFY, OP_CHECKSIGADD, OP_CHECKMULTISIG, OP_CHECKMULTISIGVERIFY) and r[0] != 'fail' or want:
            if want and got and [(a, b) for a, b in want] != got[:len(want)]:
                wit['digest_ref'] = [b.hex() for a, b in want]
                wit['digest_impl'] = [b.hex() for a, b in got]
                part.violation('digest-differs:%s:%s' % (SVN[sv], c.get('pattern')), wit)
                return
            if want and not got:
                wit['digest_ref'] = [b.hex() for a, b in want]
                part.violation('digest-not-computed:%s' % SVN[sv], wit)
                return
            nsig += len(want)
        if op in (OP_CHECKMULTISIG, OP_CHECKMULTISIGVERIFY):
            mt = [h == 'm:1' for h in hs if h.startswith('m:')]
            if mt != sess.cur.msig_trace and r[0] != 'fail':
                wit['trace_ref'] = sess.cur.msig_trace
                wit['trace_impl'] = mt
                part.violation('multisig-matching-differs', wit)
                return
        if r[0] == 'ok':
            if not e.ret:
                part.violation('rejects-valid:%s:%s:%s' % (SVN[sv], opn, e.err), wit)
                return
            if not lockstep.stacks_equal(sess.cur.stack, e.stack):
                part.violation('stack-differs:%s:%s' % (SVN[sv], opn), wit)
                return
            if sv == TAPSCRIPT and sess.cur.weight is not None and e.weight != sess.cur.weight:
                wit['weight_ref'] = sess.cur.weight
                wit['weight_impl'] = e.weight
                part.violation('validation-weight-differs', wit)
                return
        elif r[0] == 'done':
            if not (e.ret and e.done):
                part.violation('terminal-differs', wit)
                return
            part.count('outcome', 'success')
        else:
            code = r[1]
            part.count('outcome', 'fail:' + code)
            if e.ret:
                wit['ref'] = code
                part.violation('accepts-invalid:%s:%s:%s' % (SVN[sv], opn, code), wit)
                return
            ek = lockstep.exc_kind(e.exc)
            if code.startswith('NUM_'):
                if ek != code:
                    part.violation('error-differs:%s' % code, wit)
            elif e.err != code or ek:
                wit['ref'] = code
                wit['impl'] = ek or e.err
                part.violation('error-differs:%s:ref=%s:impl=%s' % (SVN[sv], code, ek or e.err), wit)
            break
    if getattr(checker, 'missing_spent', False):
        # a Schnorr digest was needed but the debugger can only know one spent output (multi-input transaction)
        part.count('outcome', 'schnorr-multi-input')
        part.violation('schnorr-multi-input-unsupported', wit)
        return
    part.count('sigversion', SVN[sv])
    part.count('pattern', '%s/%s' % (SVN[sv], c.get('pattern')))
    part.count('signature_checks', 'digests_compared', nsig)
    part.nontrivial.add(nt_hash(c['script'], tuple(c['stack']), flags, sv, rtx.ser_tx(ctx['tx'])))
    part.sample(dict(sv=SVN[sv], pattern=c.get('pattern'), notes=c['notes'], script=c['script'].hex()[:160], inputs=len(ctx['tx'].vin), input_index=ctx['idx'], flags=flags), limit=2)


def worker(job):
    bindir, idx, n = job
    rng = sub_rng(PROP, idx)
    part = Partial()
    wd = scratch('c02')
    try:
        cases = []
        for i in range(n):
            c = gen_case(rng, 's%d.%d' % (idx, i))
            c['hover'] = (zlib_crc(c['id']) % 3 == 0)
            cases.append(c)
        events, crashes, hangs = run_harness_cases(bindir, [(c['id'], case_cmds(c)) for c in cases], wd)
        by = {c['id']: c for c in cases}
        for cr in crashes:
            c = by.get(cr.case_id)
            part.violation('crash:' + cr.key, dict(id=cr.case_id, script=c['script'].hex() if c else None, sv=c['sv'] if c else None, log=cr.log[-1500:]))
        for c in cases:
            judge(c, events.get(c['id'], []), part)
    finally:
        cleanup_scratch(wd)
    return part.dump()


def binary_worker(job):
    """The documented way to debug a signature script with a transaction: `btcdeb --tx=[amounts:]<hex> [--txin=<hex>] [--select=i]
    '<script>' <stack...>`, non-interactive.  The input, its amount and its digest rules (legacy / BIP143) must be the ones of THAT
    input however they are given: amount from the --tx prefix or from --txin, input from --txin or from --select, and the rules
    by whether that input carries a witness - not by whether some other input of the transaction does."""
    bindir, idx, n = job
    from vf import proc
    from checks import c08
    from ref.verify import TxChecker
    rng = sub_rng(PROP, 'bin', idx)
    part = Partial()
    wd = scratch('c02b')
    btcdeb = os.path.join(bindir, 'btcdeb')
    try:
        done = 0
        tries = 0
        while done < n and tries < n * 30:
            tries += 1
            c = gen_case(rng, 'b%d.%d' % (idx, tries))
            if c['sv'] not in (BASE, WITNESS_V0) or c['flags'] != c['flags'] or len(c['script']) > 3000:
                continue
            ctx = c['ctx']
            tx, ix = ctx['tx'], ctx['idx']
            nin = len(tx.vin)
            # the binary runs with the standard flags
            c['flags'] = STANDARD
            variant = rng.choice(['amount-in-tx-option', 'amount-from-txin', 'select-without-txin', 'other-input-has-witness'])
            wits = [[] for _ in range(nin)]
            if c['sv'] == WITNESS_V0:
                wits[ix] = [b'\x01']            # (the debugged input is a segwit one)
            if variant == 'other-input-has-witness':
                if nin < 2:
                    continue
                j = rng.choice([k for k in range(nin) if k != ix])
                wits[j] = [rsign.rnd_bytes(rng, 71), rsign.rnd_bytes(rng, 33)]
            tx.wit = wits if any(wits) else None
            checker = TxChecker(tx, ix, ctx['amount'], None)
            want = c08.ref_run(c['script'], c['stack'], STANDARD, c['sv'], checker)
            amounts = ','.join(amount_str(ctx['amount'] if i == ix else 0) for i in range(nin))
            txh, finh = rtx.ser_tx(tx).hex(), rtx.ser_tx(ctx['fund']).hex()
            if variant == 'amount-from-txin':
                args = ['--tx=' + txh, '--txin=' + finh]
            elif variant == 'select-without-txin':
                args = ['--tx=' + amounts + ':' + txh, '--select=%d' % ix]
            else:
                args = ['--tx=' + amounts + ':' + txh, '--txin=' + finh]
            args += ['0x' + c['script'].hex()] + ['0x' + x.hex() for x in c['stack']]
            r = proc.run([btcdeb] + args, wd, mode='ptyin', timeout=60)
            done += 1
            part.evaluations += 1
            part.count('binary', '%s/%s' % (variant, SVN[c['sv']]))
            wit = dict(id=c['id'], variant=variant, sv=c['sv'], script=c['script'].hex(), stack=[x.hex() for x in c['stack']], tx=txh, fund=finh, idx=ix, amount=ctx['amount'], pattern=c.get('pattern'),
                       reference=want[0] if want[0] != 'fail' else want[1], run={k: v for k, v in r.brief().items() if k in ('rc', 'stdout', 'stderr', 'sig', 'timeout', 'sanlog')})
            if r.abnormal:
                part.violation('binary:' + r.crash_key('btcdeb'), wit)
                continue
            if want[0] == 'ok':
                if r.rc != 0 or r.stdout.decode('latin1') != c08.expected_stdout(want[1]):
                    part.violation('binary:%s:valid-signature-script-fails' % variant, wit)
                    continue
            elif want[0] == 'fail':
                if r.rc == 0:
                    part.violation('binary:%s:invalid-signature-script-succeeds' % variant, wit)
                    continue
            part.nontrivial.add(nt_hash('bin', variant, c['script'], tuple(c['stack']), txh))
    finally:
        cleanup_scratch(wd)
    return part.dump()


SESSION_SCENARIOS = [('p2tr-script', s) for s in ('valid', 'annex', 'many-checks', 'many-checks-annex', 'wrong-key', 'extra-witness-item')] + \
                    [('p2tr-key', s) for s in ('valid', 'annex', 'annex-unsigned', 'hashtype-single', 'wrong-key', 'wrong-amount')] + \
                    [(t, 'other-input-has-witness') for t in ('p2pk', 'p2pkh', 'p2sh-multisig')] + [(t, 'undefined-hashtype') for t in ('p2pkh', 'p2wpkh', 'p2wsh', 'p2sh-p2wpkh')] + \
                    [('p2wpkh', 'wrong-amount'), ('p2wsh', 'valid'), ('p2sh-p2wsh', 'valid')]


def session_worker(job):
    """Schnorr checks the way a user reaches them: a `--tx/--txin` session of a taproot spend.  The budget a tapscript starts with
    (serialized witness INCLUDING the annex + 50), the digest's annex / leaf commitments and the per-check charge are then set up by
    the session code, not by this check's harness: the C03 scenario builder, driver and judge are reused for the taproot scenarios
    (standard flags) and for legacy / segwit v0 inputs whose digest rules depend on the session's choice of signature version (another
    input of the transaction carries a witness; undefined hash types under -STRICTENC) (initial weight, step trace and verdict against the reference)."""
    bindir, idx, n = job
    from checks import c03
    rng = sub_rng(PROP, 'sess', idx)
    part = Partial()
    wd = scratch('c02s')
    try:
        scs = []
        for i in range(n):
            otype, sat = SESSION_SCENARIOS[(idx * n + i) % len(SESSION_SCENARIOS)]
            try:
                sc = c03.build(rng, otype, sat)
            except Exception as e:
                part.inconc('session-builder:%s/%s:%s' % (otype, sat, type(e).__name__))
                continue
            sc['otype'], sc['sat'] = otype, sat
            sc['flags'], sc['flagmod'] = STANDARD, 'standard'
            if sat == 'undefined-hashtype':
                sc['flags'], sc['flagmod'] = STANDARD & ~F["STRICTENC"], '-STRICTENC'
            sc['select'] = -1 if rng.random() < 0.5 else sc['idx']
            sc['id'] = 's%d.%d' % (idx, i)
            scs.append(sc)
        events, crashes, hangs = run_harness_cases(bindir, [(sc['id'], c03.scenario_cmds(sc['id'], sc, sc['select'])) for sc in scs], wd)
        for cr in crashes:
            part.violation('session:crash:' + cr.key, dict(id=cr.case_id, log=cr.log[-1500:]))
        for sc in scs:
            sub = Partial()
            c03.judge(sc, c03.parse_events(events.get(sc['id'], [])), sub)
            part.evaluations += 1
            part.count('sessions', '%s/%s' % (sc['otype'], sc['sat']))
            for k, w in sub.violations:
                part.violation('session:' + k, w)
            for k, v in sub.inconclusive.items():
                part.inconclusive['session:' + k] += v
            for t, cnt in sub.tables.items():
                if t == 'scenarios':
                    for k, v in cnt.items():
                        part.count('session-verdicts', k, v)
            if not sub.violations:
                part.nontrivial.add(nt_hash('sess', sc['otype'], sc['sat'], rtx.ser_tx(sc['tx'])))
    finally:
        cleanup_scratch(wd)
    return part.dump()


def main():
    ap = argparse.ArgumentParser()
    ap.add_argument('--tier', default=os.environ.get('VERIF_TIER', 'quick'))
    ap.add_argument('--replay')
    a = ap.parse_args()
    bindir = vbuild.build('asan')
    rep = Reporter(PROP, a.tier)
    if a.replay:
        d = json.load(open(a.replay))
        for w in d['witnesses']:
            print(json.dumps(w, indent=1)[:3000])
        print('(replay: re-run with VERIF_SEED=%s; the witness id names chunk and index)' % d.get('seed'))
        return 0
    n = 500 if a.tier == 'quick' else 8000
    for r in parallel(worker, [(bindir, i, n) for i in range(32)]):
        rep.merge(r)
    for r in parallel(binary_worker, [(bindir, i, 25 if a.tier == 'quick' else 400) for i in range(16)]):
        rep.merge(r)
    for r in parallel(session_worker, [(bindir, i, 36 if a.tier == 'quick' else 900) for i in range(16)]):
        rep.merge(r)
    nd = rep.tables.get('signature_checks', {}).get('digests_compared', 0)
    return rep.finish(
        rule='contexts built and signed by the independent signer: 1..4 inputs/0..4 outputs, versions {-1,0,1,2,2^31-1}, lock times, sequences, input index incl. >= #outputs, amounts {0,1,546,..,21e14}; '
             'ECDSA: all hash-type bytes (random + boundary), compressed/uncompressed/hybrid/garbage/off-curve keys, DER variants (high-S, padded, long-form length, trailing byte, negative R), bit flips, '
             'OP_CODESEPARATOR before/after/unexecuted/multiple, FindAndDelete, k-of-n multisig (n<=20) in order/reversed/wrong key/corrupt/empty, dummy != empty; '
             'Schnorr: key path and tapscript (CHECKSIG, CHECKSIGADD chains, code separators, upgradable key types, budgets at 49/50/99/100/50n+-1), annex present/absent, valid and undefined hash types; '
             'random subsets of the 8 signature-related flags; a sample of the ECDSA contexts also through the real binary in explicit-script mode (amount from the --tx prefix or from --txin, input from --txin or --select, another input carrying a witness). non-trivial = distinct (script, stack, flags, sigversion, tx) whose trace was compared to the end',
        assumptions=['ref/secp.py, ref/sighash.py, ref/verify.py anchored on the doc/txs chain data and BIP340 vector 0 (./check selftest)',
                     'Schnorr contexts use single-input transactions (the debugger cannot learn other inputs\' spent outputs; recorded finding)'],
        extra={'digests_compared': nd}, min_events=200, observed=nd)


if __name__ == '__main__':
    main_wrapper(main)
