"""C03 — a --tx/--txin session reproduces consensus validation of that input.

Events : native harness: parse_transaction / parse_input_transaction(select) / configure_tx_txin / setup_environment /
         step-to-end (selected input, vout index, amount, sigversion, scripts, initial stack, every step);
         real binary: btcdeb --tx= --txin= [--select=] [-f...] non-interactive: exit status, final stack, diagnostics.
Oracle : ref.verify.verify_input on the same pair and flags (independent signer builds the pairs).  btcdeb's
         verdict is read leniently, as the property words it: valid iff the session is set up, runs to the end
         without error and the final stack is what validation requires (true top; exactly one element for witness
         scripts or with CLEANSTACK).
"""
import sys, os, argparse, json
sys.path.insert(0, os.path.dirname(os.path.dirname(os.path.abspath(__file__))))
from vf.common import *
from vf import build as vbuild, proc
from ref.script import *
from ref import secp, sighash, taproot, sign as rsign, tx as rtx, verify
from checks.lockstep import parse_events

PROP = 'C03'
TYPES = ['p2pk', 'multisig', 'p2pkh', 'p2sh-multisig', 'p2sh-hashlock', 'p2wpkh', 'p2wsh', 'p2sh-p2wpkh', 'p2sh-p2wsh', 'p2tr-key', 'p2tr-script', 'p2wsh-timelock', 'p2sh-timelock',  'p2wsh-hashlock', 'witness-program', 'odd-spk', 'bare-spk']
SEGWIT = {'witness-program', 'odd-spk', 'p2wpkh', 'p2wsh', 'p2sh-p2wpkh', 'p2sh-p2wsh', 'p2tr-key', 'p2tr-script', 'p2wsh-timelock', 'p2wsh-hashlock'}
SATS = {
    'p2pk': ['valid', 'undefined-hashtype', 'wrong-key', 'altered-output', 'altered-sequence', 'altered-locktime', 'non-push-scriptsig', 'leftover-stack', 'unexpected-witness', 'split-conditional', 'altstack-carry', 'wrong-amount',
             'opcount-201-in-each-script', 'opcount-202-in-scriptpubkey', 'opcount-202-in-scriptsig', 'other-input-has-witness'],
    'multisig': ['valid', 'undefined-hashtype', 'wrong-key', 'wrong-order', 'altered-output', 'missing-sig', 'nonempty-dummy', 'leftover-stack'],
    'p2pkh': ['valid', 'undefined-hashtype', 'wrong-key', 'wrong-pubkey-hash', 'altered-output', 'altered-locktime', 'unexpected-witness', 'leftover-stack', 'wrong-amount', 'other-input-has-witness'],
    'p2sh-multisig': ['valid', 'undefined-hashtype', 'wrong-key', 'wrong-script-hash', 'altered-output', 'non-push-scriptsig', 'leftover-stack', 'wrong-order', 'other-input-has-witness'],
    'p2sh-hashlock': ['valid', 'wrong-preimage', 'wrong-script-hash', 'non-push-scriptsig', 'leftover-stack'],
    'p2wpkh': ['valid', 'undefined-hashtype', 'wrong-key', 'wrong-pubkey-hash', 'wrong-amount', 'altered-output', 'altered-sequence', 'extra-witness-item', 'missing-witness-item', 'nonempty-scriptsig', 'uncompressed-key', 'empty-witness'],
    'p2wsh': ['valid', 'undefined-hashtype', 'wrong-key', 'wrong-script-hash', 'wrong-amount', 'altered-output', 'extra-witness-item', 'missing-witness-item', 'witness-item-521', 'leftover-stack', 'nonempty-scriptsig', 'false-result'],
    'p2sh-p2wpkh': ['valid', 'undefined-hashtype', 'wrong-key', 'wrong-script-hash', 'wrong-amount', 'altered-locktime', 'scriptsig-trailing-op', 'scriptsig-nonminimal-push', 'extra-witness-item', 'empty-witness'],
    'p2sh-p2wsh': ['valid', 'undefined-hashtype', 'wrong-key', 'wrong-script-hash', 'wrong-witness-script-hash', 'wrong-amount', 'scriptsig-trailing-op', 'leftover-stack'],
    'p2tr-key': ['valid', 'wrong-key', 'wrong-amount', 'altered-output', 'altered-sequence', 'annex', 'annex-unsigned', 'hashtype-single', 'bad-sig-size', 'multi-input', 'sig-first-byte-0x50', 'empty-witness'],
    'p2tr-script': ['valid', 'wrong-key', 'wrong-amount', 'altered-output', 'control-parity', 'control-internal-key', 'control-node', 'control-leaf-version', 'control-truncated', 'wrong-script', 'annex',
                    'extra-witness-item', 'leftover-stack', 'false-result', 'op-success', 'unknown-leaf-version', 'empty-script', 'multi-input', 'many-checks', 'many-checks-annex', 'p2sh-shaped-leaf',
                    'initial-stack-999', 'initial-stack-1000', 'initial-stack-1001', 'initial-stack-998-annex', 'initial-stack-1000-annex', 'initial-stack-1001-annex'],
    'p2wsh-timelock': ['csv-ok', 'csv-too-early', 'csv-equal', 'csv-highbits-ok', 'csv-highbits-too-early', 'csv-disabled-bit-in-tx', 'csv-disabled-bit-in-script', 'csv-type-mismatch', 'csv-version1', 'csv-version-high-bit',
                       'cltv-ok', 'cltv-too-early', 'cltv-equal', 'cltv-type-mismatch', 'cltv-final-sequence', 'cltv-time-ok'],
    'p2sh-timelock': ['csv-ok', 'csv-too-early', 'csv-highbits-too-early', 'csv-version1', 'csv-version-high-bit', 'cltv-ok', 'cltv-too-early', 'cltv-final-sequence', 'cltv-type-mismatch'],
    # witness items are bytes, whatever they look like as text; a witness script is run as it is, whatever it looks like
    # witness programs other than v0/20, v0/32 and native v1/32: future versions succeed unless discouraged, v0 of another length fails
    'witness-program': ['v2-32-bytes', 'v16-2-bytes', 'v1-33-bytes', 'v1-2-bytes', 'v0-25-bytes', 'v0-2-bytes', 'p2sh-wrapped-v1-32-bytes', 'p2sh-wrapped-v5-20-bytes', 'v2-40-bytes', 'p2sh-wrapped-v1-valid-keypath'],
    # scriptPubKeys that only LOOK like pay-to-script-hash (or are nearly one), spent like a P2SH-wrapped segwit output
    # bare scripts without signatures: the scriptPubKey may be empty (then the scriptSig is still a scriptSig: push-only rules, its own end)
    'bare-spk': ['empty-spk/push-only', 'empty-spk/non-push', 'empty-spk/non-push-false', 'empty-spk/unbalanced-if', 'empty-spk/alt-stack', 'nop-spk/non-push', 'nop-spk/push-only', 'op1-spk/empty-scriptsig',
                 'empty-spk/empty-scriptsig', 'depth-spk/two-pushes', 'empty-spk/hash160-shaped-scriptsig'],
    'odd-spk': ['hash160-equal-nop', 'hash160-equal-verify-1', 'hash160-return', 'hash160-21-bytes', 'hash160-19-bytes'],
    'p2wsh-hashlock': ['undefined-opcode-unexecuted', 'valid', 'wrong-preimage', 'digits-only-preimage', 'two-digit-items', 'p2sh-shaped-witness-script', 'p2sh-shaped-witness-script-inner-fails', 'opcode-name-preimage', 'leftover-stack',
                       'script-521-bytes', 'script-9999-bytes', 'script-10000-bytes', 'script-10001-bytes'],
}
FLAGMODS = {
    'p2pk': ['NULLFAIL', 'CLEANSTACK', 'SIGPUSHONLY+', 'LOW_S', 'STRICTENC'],
    'multisig': ['NULLDUMMY', 'NULLFAIL', 'CLEANSTACK'],
    'p2pkh': ['CLEANSTACK', 'WITNESS', 'STRICTENC'],
    'p2sh-multisig': ['P2SH', 'NULLDUMMY', 'CLEANSTACK'],
    'p2sh-hashlock': ['P2SH', 'CLEANSTACK', 'MINIMALDATA'],
    'p2wpkh': ['WITNESS', 'WITNESS_PUBKEYTYPE', 'NULLFAIL', 'CLEANSTACK'],
    'p2wsh': ['WITNESS', 'CLEANSTACK', 'MINIMALIF', 'NULLFAIL'],
    'p2sh-p2wpkh': ['WITNESS', 'P2SH', 'CLEANSTACK'],
    'p2sh-p2wsh': ['WITNESS', 'P2SH'],
    'p2tr-key': ['TAPROOT', 'WITNESS', 'CLEANSTACK'],
    'p2tr-script': ['TAPROOT', 'DISCOURAGE_OP_SUCCESS', 'DISCOURAGE_UPGRADABLE_TAPROOT_VERSION', 'DISCOURAGE_UPGRADABLE_PUBKEYTYPE'],
    'p2wsh-timelock': ['CHECKSEQUENCEVERIFY', 'CHECKLOCKTIMEVERIFY', 'WITNESS'],
    'p2sh-timelock': ['CHECKSEQUENCEVERIFY', 'CHECKLOCKTIMEVERIFY', 'P2SH'],
    'p2wsh-hashlock': ['WITNESS', 'P2SH', 'CLEANSTACK', 'MINIMALIF'],
    'odd-spk': ['WITNESS', 'CLEANSTACK', 'P2SH'],
    'bare-spk': ['SIGPUSHONLY+', 'SIGPUSHONLY+', 'SIGPUSHONLY+', 'CLEANSTACK', 'P2SH'],
    'witness-program': ['DISCOURAGE_UPGRADABLE_WITNESS_PROGRAM', 'DISCOURAGE_UPGRADABLE_WITNESS_PROGRAM', 'DISCOURAGE_UPGRADABLE_WITNESS_PROGRAM', 'WITNESS', 'TAPROOT'],
}


def digits_only_bytes(rng):
    """byte strings whose hexadecimal text consists of decimal digits only ("51", "1234", "00", ...)"""
    return rng.choice([b'\x51', b'\x10', b'\x12\x34', b'\x00', b'\x01', b'\x99', b'\x00\x10', b'\x20\x21\x22\x23', b'\x98\x76\x54\x32\x10', b'\x16', b'\x17', b'\x81', b'\x00\x00',
                       bytes(rng.choice([0, 1, 2, 3, 4, 5, 6, 7, 8, 9]) * 16 + rng.choice([0, 1, 2, 3, 4, 5, 6, 7, 8, 9]) for _ in range(rng.choice([1, 2, 3, 4, 8, 9, 10, 20, 32])))])


def build(rng, otype, sat):
    """-> dict(tx, fund, idx, fvout, amount, spk, spent, note) ; signatures by the independent signer"""
    sk = rsign.rnd_sk(rng)
    sk2 = rsign.rnd_sk(rng)
    sk3 = rsign.rnd_sk(rng)
    pub = secp.pub_from_sec(sk, not (sat == 'uncompressed-key'))
    pubs3 = [secp.pub_from_sec(s) for s in (sk, sk2, sk3)]
    amount = rng.choice([546, 10000, 123456789, 21 * 10 ** 14, 0, 1])
    note = []
    m_path = 0
    tree_nodes = []
    leaf_version = 0xc0
    internal = None
    tap_script = None
    # ---- locking script
    redeem = wscript = None
    if otype == 'p2pk':
        spk = rsign.spk_p2pk(pub)
        if sat.startswith('opcount'):
            # each script has its own budget of 201 counted operations (the scriptSig's are not carried over)
            spk = bytes([OP_NOP]) * (201 if sat == 'opcount-202-in-scriptpubkey' else 200) + spk
    elif otype == 'multisig':
        k = rng.choice([1, 2])
        spk = rsign.multisig_script(k, pubs3)
    elif otype == 'p2pkh':
        spk = rsign.spk_p2pkh(pub)
    elif otype == 'p2sh-multisig':
        k = 2
        redeem = rsign.multisig_script(k, pubs3)
        spk = rsign.spk_p2sh(redeem)
    elif otype == 'p2sh-hashlock':
        pre = rsign.rnd_bytes(rng, rng.choice([1, 20, 32])) if rng.random() < 0.6 else digits_only_bytes(rng)
        redeem = bytes([OP_SHA256]) + push_only(sha256(pre)) + bytes([OP_EQUAL])
        spk = rsign.spk_p2sh(redeem)
    elif otype == 'p2wpkh':
        spk = rsign.spk_p2wpkh(pub)
    elif otype == 'p2wsh' and sat == 'witness-item-521':
        wscript = bytes([OP_DROP, OP_1])
        spk = rsign.spk_p2wsh(wscript)
    elif otype == 'p2wsh':
        wscript = rng.choice([rsign.spk_p2pk(pub), rsign.multisig_script(2, pubs3), bytes([OP_1, OP_IF]) + rsign.spk_p2pk(pub) + bytes([OP_ELSE, OP_0, OP_ENDIF])])
        spk = rsign.spk_p2wsh(wscript)
    elif otype == 'p2sh-p2wpkh':
        redeem = rsign.spk_p2wpkh(pub)
        spk = rsign.spk_p2sh(redeem)
    elif otype == 'p2sh-p2wsh':
        wscript = rng.choice([rsign.spk_p2pk(pub), rsign.multisig_script(2, pubs3)])
        redeem = rsign.spk_p2wsh(wscript)
        spk = rsign.spk_p2sh(redeem)
    elif otype == 'bare-spk':
        spk = {'empty-spk': b'', 'nop-spk': bytes([OP_NOP]), 'op1-spk': bytes([OP_1]), 'depth-spk': bytes([OP_DEPTH, OP_2, OP_EQUALVERIFY, OP_DROP])}[sat.split('/')[0]]
    elif otype == 'odd-spk':
        redeem = rsign.spk_p2wpkh(pub)
        h = hash160(redeem)
        if sat == 'hash160-equal-nop':
            spk = bytes([OP_HASH160]) + push_only(h) + bytes([OP_EQUAL, OP_NOP])
        elif sat == 'hash160-equal-verify-1':
            spk = bytes([OP_HASH160]) + push_only(h) + bytes([OP_EQUAL, OP_VERIFY, OP_1])
        elif sat == 'hash160-return':
            spk = bytes([OP_HASH160]) + push_only(h) + bytes([OP_RETURN])
        elif sat == 'hash160-21-bytes':
            spk = bytes([OP_HASH160]) + push_only(h + b'\x00') + bytes([OP_EQUAL])
        else:
            spk = bytes([OP_HASH160]) + push_only(h[:19]) + bytes([OP_EQUAL])
    elif otype == 'witness-program' and sat == 'p2sh-wrapped-v1-valid-keypath':
        internal = secp.xonly_from_sec(sk)
        q, par = taproot.output_key(internal, None)
        tweaked = rsign.tweak_seckey(sk, internal, None)
        redeem = rsign.spk_p2tr(q)
        spk = rsign.spk_p2sh(redeem)
    elif otype == 'witness-program':
        ver = int(sat.split('-v')[1].split('-')[0]) if sat.startswith('p2sh') else int(sat.split('-')[0][1:])
        plen = int(sat.split('-')[-2])
        wprog = bytes([OP_0 if ver == 0 else OP_1 + ver - 1]) + push_only(rsign.rnd_bytes(rng, plen))
        if sat.startswith('p2sh'):
            redeem = wprog
            spk = rsign.spk_p2sh(redeem)
        else:
            spk = wprog
    elif otype == 'p2wsh-hashlock':
        if sat in ('digits-only-preimage', 'two-digit-items'):
            pre = digits_only_bytes(rng)
        elif sat == 'opcode-name-preimage':
            pre = rng.choice([b'OP_1', b'add', b'OP_DUP', b'0x51', b'[OP_1]', b'hash160(00)', b'-1', b'1e3', b' 12'])
        else:
            pre = rng.choice([digits_only_bytes(rng), rsign.rnd_bytes(rng, rng.choice([1, 2, 16, 32]))])
        if sat == 'undefined-opcode-unexecuted':
            # an undefined opcode fails only when it is executed: inside a branch that is not taken the spend is valid
            wscript = bytes([OP_0, OP_IF, rng.choice([0xff, 0xbb, 0xfe]), OP_ENDIF, OP_SHA256]) + push_only(sha256(pre)) + bytes([OP_EQUAL])
        elif sat.startswith('script-'):
            # the witness script itself may be up to 10,000 bytes long (the 520-byte rule is for stack items, the script is not one)
            target = int(sat.split('-')[1])
            body = bytes([OP_SHA256]) + push_only(sha256(pre)) + bytes([OP_EQUAL])
            pad = b''
            while target - len(body) - len(pad) > 524:
                pad += bytes([OP_PUSHDATA2, 520 & 255, 520 >> 8]) + b'p' * 520 + bytes([OP_DROP])
            rest = target - len(body) - len(pad)
            fit = [L for L in range(2, 521) if len(push_data(b'q' * L)) + 1 == rest]      # (minimal push forms only)
            if fit:
                pad += push_data(b'q' * fit[0]) + bytes([OP_DROP])
            else:
                pad += bytes([OP_NOP]) * rest
            wscript = pad + body
            assert len(wscript) == target
        elif sat.startswith('p2sh-shaped'):
            # a witness script that LOOKS like a pay-to-script-hash output: consensus just runs it (HASH160 <h> EQUAL)
            pre = bytes([OP_RETURN]) if sat.endswith('inner-fails') else rng.choice([bytes([OP_1]), bytes([OP_1, OP_1, OP_ADD]), bytes([OP_0]), bytes([OP_NOP, OP_NOP])])
            wscript = bytes([OP_HASH160]) + push_only(hash160(pre)) + bytes([OP_EQUAL])
        elif sat == 'two-digit-items':
            pre2 = digits_only_bytes(rng)
            wscript = bytes([OP_SHA256]) + push_only(sha256(pre)) + bytes([OP_EQUALVERIFY, OP_SHA256]) + push_only(sha256(pre2)) + bytes([OP_EQUAL])
        else:
            wscript = rng.choice([bytes([OP_SHA256]) + push_only(sha256(pre)) + bytes([OP_EQUAL]), bytes([OP_HASH256]) + push_only(sha256(sha256(pre))) + bytes([OP_EQUAL]), push_only(pre) + bytes([OP_EQUAL])])
        spk = rsign.spk_p2wsh(wscript)
    elif otype in ('p2wsh-timelock', 'p2sh-timelock'):
        # <n> CSV|CLTV DROP <pub> CHECKSIG ; the transaction fields are chosen per satisfaction below
        is_csv = sat.startswith('csv')
        TYPE = 1 << 22
        if is_csv:
            operand = rng.choice([1, 10, 144, 0xffff]) if 'type-mismatch' not in sat else (rng.choice([1, 10, 500]) | TYPE)
            if sat == 'csv-disabled-bit-in-script':
                operand = (1 << 31) | rng.choice([1, 0xffff, 0x7fffffff])
        else:
            operand = rng.choice([1, 100, 499999999]) if sat != 'cltv-time-ok' else rng.choice([500000000, 1600000000])
        lockscript = push_num(operand) + bytes([OP_CHECKSEQUENCEVERIFY if is_csv else OP_CHECKLOCKTIMEVERIFY, OP_DROP]) + push_only(pub) + bytes([OP_CHECKSIG])
        if otype == 'p2wsh-timelock':
            wscript = lockscript
            spk = rsign.spk_p2wsh(wscript)
        else:
            redeem = lockscript
            spk = rsign.spk_p2sh(redeem)
        tl = dict(is_csv=is_csv, operand=operand)
    elif otype == 'p2tr-key':
        internal = secp.xonly_from_sec(sk)
        root = None if rng.random() < 0.5 else rsign.rnd_bytes(rng, 32)
        q, par = taproot.output_key(internal, root)
        spk = rsign.spk_p2tr(q)
        tweaked = rsign.tweak_seckey(sk, internal, root)
    else:  # p2tr-script
        internal = secp.xonly_from_sec(sk2)
        xpk = secp.xonly_from_sec(sk)
        kind = rng.choice(['checksig', 'checksig', 'hashlock', 'checksigadd'])
        if sat == 'op-success':
            tap_script = bytes([OP_RESERVED]) if rng.random() < 0.5 else bytes([OP_1, OP_CAT])
        elif sat == 'empty-script':
            tap_script = b''
        elif sat in ('many-checks', 'many-checks-annex'):
            # one signature checked several times: the BIP342 budget is 50 + the size of the WHOLE witness
            reps = rng.choice([3, 4, 5])
            tap_script = b''.join(bytes([OP_DUP]) + push_only(xpk) + bytes([OP_CHECKSIGVERIFY]) for _ in range(reps - 1)) + push_only(xpk) + bytes([OP_CHECKSIG])
            kind = 'checksig'
        elif sat.startswith('initial-stack-'):
            # BIP342: at most 1000 elements on the initial stack - the leaf script, the control block and the annex are not among them
            nst = int(sat.split('-')[2])
            tap_script = bytes([OP_DROP]) * (nst - 1)
            kind = 'stack'
        elif sat == 'p2sh-shaped-leaf':
            pre = rng.choice([bytes([OP_RETURN]), bytes([OP_1]), bytes([OP_0])])
            tap_script = bytes([OP_HASH160]) + push_only(hash160(pre)) + bytes([OP_EQUAL])
            kind = 'hashlock'
        elif kind == 'checksig':
            tap_script = push_only(xpk) + bytes([OP_CHECKSIG])
        elif kind == 'hashlock':
            pre = rsign.rnd_bytes(rng, 16) if rng.random() < 0.5 else digits_only_bytes(rng)
            tap_script = bytes([OP_SHA256]) + push_only(sha256(pre)) + bytes([OP_EQUAL])
        else:
            tap_script = push_only(xpk) + bytes([OP_CHECKSIG]) + push_only(secp.xonly_from_sec(sk3)) + bytes([OP_CHECKSIGADD, OP_2, OP_NUMEQUAL])
        tap_kind = kind if sat not in ('op-success', 'empty-script') else sat
        m_path = rng.choice([0, 1, 1, 2, 3, 128]) if rng.random() < 0.9 else rng.randrange(4, 128)
        if sat == 'unknown-leaf-version':
            leaf_version = rng.choice([0xc2, 0x00, 0xfe, 0x50 & 0xfe])
        kk = taproot.tapleaf_hash(tap_script, leaf_version)
        for j in range(m_path):
            e = rsign.rnd_bytes(rng, 32)
            tree_nodes.append(e)
            kk = taproot.tapbranch(kk, e)
        q, par = taproot.output_key(internal, kk)
        spk = rsign.spk_p2tr(q)
        control = bytes([leaf_version | par]) + internal + b''.join(tree_nodes)
    # ---- funding / spending skeleton
    nfo = rng.choice([1, 2, 3])
    fvout = rng.randrange(nfo)
    outs = [(rng.choice([1000, 5 * 10 ** 8]), rsign.spk_p2wpkh(secp.pub_from_sec(77))) for _ in range(nfo)]
    fund_amount = amount
    outs[fvout] = (fund_amount, spk)
    fund = rsign.funding_tx(rng, outs)
    nin = rng.choice([1, 1, 2, 3, 4])
    if otype in ('p2tr-key', 'p2tr-script'):
        nin = 1 if sat != 'multi-input' else rng.choice([2, 3])
    if sat == 'other-input-has-witness':
        nin = rng.choice([2, 3, 4])
    idx = rng.randrange(nin)
    fid = rtx.txid(fund)
    prevouts = [(fid, fvout) if i == idx else (rsign.rnd_bytes(rng, 32), rng.randrange(3)) for i in range(nin)]
    tx = rsign.spending_tx(rng, prevouts, nout=rng.choice([1, 1, 2, 3]), version=rng.choice([1, 2, 2]), locktime=rng.choice([0, 0, 17, 500000001]))
    if otype in ('p2wsh-timelock', 'p2sh-timelock'):
        n0 = tl['operand']
        if tl['is_csv']:
            tx.version = 2 if sat != 'csv-version1' else 1
            if sat == 'csv-version-high-bit':
                # the version is compared as an UNSIGNED number: 0x80000002 and 0xffffffff are >= 2 (relative lock times apply)
                tx.version = rng.choice([-1, -0x80000000 + 2, -0x80000000, -2])
            base = n0 & 0xffff
            tflag = n0 & (1 << 22)
            if sat in ('csv-ok', 'csv-version1', 'csv-version-high-bit', 'csv-disabled-bit-in-script', 'csv-type-mismatch'):
                seq = (base + rng.choice([0, 1, 5])) & 0xffff | (tflag if sat != 'csv-type-mismatch' else 0)
            elif sat == 'csv-equal':
                seq = base | tflag
            elif sat == 'csv-too-early':
                seq = max(0, base - 1) | tflag
            elif sat == 'csv-highbits-ok':
                seq = ((base + 1) & 0xffff) | tflag | rng.choice([0x00010000, 0x20000000, 0x00200000])
            elif sat == 'csv-highbits-too-early':
                seq = max(0, base - 1) | tflag | rng.choice([0x00010000, 0x20000000, 0x00200000, 0x7f800000 & ~(1 << 22)])
            else:   # csv-disabled-bit-in-tx
                seq = base | (1 << 31)
            tx.vin[idx][3] = seq
        else:
            if sat in ('cltv-ok', 'cltv-time-ok', 'cltv-final-sequence'):
                tx.locktime = n0 + rng.choice([0, 1, 1000])
            elif sat == 'cltv-equal':
                tx.locktime = n0
            elif sat == 'cltv-too-early':
                tx.locktime = n0 - 1
            else:   # type mismatch: height vs time
                tx.locktime = 500000000 + n0 if n0 < 500000000 else 499999999
            tx.vin[idx][3] = 0xffffffff if sat == 'cltv-final-sequence' else rng.choice([0, 0xfffffffe, 17])
    spent = [(amount, spk) if i == idx else (rng.choice([1, 999]), rsign.spk_p2tr(rsign.rnd_bytes(rng, 32))) for i in range(nin)]
    signer = sk if sat != 'wrong-key' else rsign.rnd_sk(rng)
    ht = 1 if rng.random() < 0.8 else rng.choice([2, 3, 0x81, 0x82, 0x83])
    if sat == 'undefined-hashtype':
        # a hash type byte outside {1,2,3,0x81,0x82,0x83}: refused under STRICTENC, otherwise classified by its low five bits
        # (legacy and BIP143 alike) - consensus-valid without STRICTENC
        ht = rng.choice([0, 4, 5, 6, 7, 0x0a, 0x0b, 0x1e, 0x1f, 0x20, 0x22, 0x23, 0x42, 0x43, 0x46, 0x47, 0x62, 0x63, 0x80, 0x84, 0x86, 0x87, 0xa2, 0xa3, 0xc2, 0xe3, 0xfe, 0xff,
                         rng.choice([h for h in range(256) if (h & ~0x80) not in (1, 2, 3)])])
    ssig = b''
    wit = []

    def lsig(code, key=None):
        return rsign.sign_legacy(tx, idx, code, key or signer, ht)

    def wsig(code, key=None):
        return rsign.sign_v0(tx, idx, code, amount, key or signer, ht)

    def msigs(code, k, fn):
        keys = [sk, sk2, sk3][:k] if sat != 'wrong-key' else [rsign.rnd_sk(rng)] + [sk2, sk3][:k - 1]
        sigs = [fn(code, key) for key in keys]
        if sat == 'wrong-order' and len(sigs) > 1:
            sigs.reverse()
        if sat == 'missing-sig':
            sigs = sigs[:-1]
        return sigs

    if otype == 'p2pk':
        ssig = push_only(lsig(spk))
        if sat.startswith('opcount'):
            ssig += bytes([OP_NOP]) * (202 if sat == 'opcount-202-in-scriptsig' else 201)
    elif otype == 'multisig':
        k = spk[0] - OP_1 + 1
        dummy = b'\x00' if sat != 'nonempty-dummy' else b'\x01\x01'
        ssig = dummy + b''.join(push_only(s) for s in msigs(spk, k, lsig))
    elif otype == 'p2pkh':
        ssig = push_only(lsig(spk)) + push_only(pub)
        if sat == 'wrong-pubkey-hash':
            other = secp.pub_from_sec(sk2)
            ssig = push_only(rsign.sign_legacy(tx, idx, spk, sk2, ht)) + push_only(other)
    elif otype == 'p2sh-multisig':
        r2 = redeem
        if sat == 'wrong-script-hash':
            r2 = rsign.multisig_script(2, [pubs3[0], pubs3[1], secp.pub_from_sec(rsign.rnd_sk(rng))])
        ssig = b'\x00' + b''.join(push_only(s) for s in msigs(r2, 2, lsig)) + push_only(r2)
    elif otype == 'p2sh-hashlock':
        p2 = pre if sat != 'wrong-preimage' else pre + b'\x00'
        r2 = redeem if sat != 'wrong-script-hash' else redeem + bytes([OP_NOP])
        ssig = push_only(p2) + push_only(r2)
    elif otype == 'p2wpkh':
        code = rsign.spk_p2pkh(pub)
        wit = [wsig(code), pub]
        if sat == 'wrong-pubkey-hash':
            other = secp.pub_from_sec(sk2)
            wit = [rsign.sign_v0(tx, idx, rsign.spk_p2pkh(other), amount, sk2, ht), other]
    elif otype in ('p2wsh', 'p2sh-p2wsh'):
        ws = wscript
        if sat in ('wrong-script-hash', 'wrong-witness-script-hash') and otype == 'p2wsh' or sat == 'wrong-witness-script-hash':
            ws = wscript + bytes([OP_NOP])
        if ws[-1] == OP_CHECKMULTISIG or (ws[-1] == OP_NOP and ws[-2] == OP_CHECKMULTISIG):
            wit = [b''] + msigs(ws, 2, wsig) + [ws]
        elif ws[0] == OP_1 and ws[1] == OP_IF:
            wit = [wsig(ws), ws]
        else:
            wit = [wsig(ws), ws]
        if sat == 'false-result':
            wit = [b''] * (len(wit) - 1) + [ws]
        if otype == 'p2sh-p2wsh':
            r2 = redeem if sat != 'wrong-script-hash' else rsign.spk_p2wsh(ws + b'\x61')
            ssig = push_only(r2)
    elif otype == 'p2wsh-timelock':
        wit = [wsig(wscript), wscript]
    elif otype == 'bare-spk':
        ssig = {'push-only': bytes([OP_1]), 'non-push': bytes([OP_NOP, OP_1]), 'non-push-false': bytes([OP_1, OP_NOT]), 'unbalanced-if': bytes([OP_1, OP_1, OP_IF]), 'alt-stack': bytes([OP_1, OP_1, OP_TOALTSTACK]),
                'empty-scriptsig': b'', 'two-pushes': bytes([OP_1]) + push_only(b'\x07' * 20),
                'hash160-shaped-scriptsig': bytes([OP_HASH160]) + push_only(hash160(bytes([OP_1]))) + bytes([OP_EQUAL])}[sat.split('/')[1]]
    elif otype == 'odd-spk':
        # a correctly signed P2WPKH witness and the "redeem script" in the scriptSig, as for a P2SH-P2WPKH output
        wit = [wsig(rsign.spk_p2pkh(pub)), pub]
        ssig = push_only(redeem)
    elif otype == 'witness-program' and sat == 'p2sh-wrapped-v1-valid-keypath':
        # a valid BIP341 key-path signature - but a v1 program wrapped in P2SH is NOT taproot (BIP341): it is an unknown program
        tx.wit[idx] = [b'\x00' * 64]
        spent[idx] = (amount, redeem)
        d = sighash.sighash_taproot(tx, idx, 0, [(amount, redeem) if i == idx else x for i, x in enumerate(spent)], 0, None)
        spent[idx] = (amount, spk)
        wit = [rsign.sign_schnorr(tweaked, d if d else b'\x00' * 32, 0)]
        ssig = push_only(redeem)
    elif otype == 'witness-program':
        wit = rng.choice([[b'\x01'], [b''], [b'\x01', b'\x51'], [rsign.rnd_bytes(rng, 64)]])
        if sat.startswith('p2sh'):
            ssig = push_only(redeem)
    elif otype == 'p2wsh-hashlock':
        if sat == 'two-digit-items':
            wit = [pre2, pre, wscript]
        else:
            wit = [pre if sat != 'wrong-preimage' else pre + b'\x00', wscript]
    elif otype == 'p2sh-timelock':
        ssig = push_only(lsig(redeem)) + push_only(redeem)
    elif otype == 'p2sh-p2wpkh':
        code = rsign.spk_p2pkh(pub)
        wit = [wsig(code), pub]
        r2 = redeem if sat != 'wrong-script-hash' else rsign.spk_p2wpkh(secp.pub_from_sec(sk2))
        ssig = push_only(r2)
    elif otype == 'p2tr-key':
        tht = rng.choice([0, 0, 1, 0x81, 0x83]) if sat != 'hashtype-single' else 3
        annex = None
        if sat in ('annex', 'annex-unsigned'):
            annex = b'\x50' + rsign.rnd_bytes(rng, rng.choice([0, 5]))
        tx.wit[idx] = [b'\x00' * 64]
        d = sighash.sighash_taproot(tx, idx, tht, spent, 0, annex if sat != 'annex-unsigned' else None)
        key = tweaked if sat != 'wrong-key' else rsign.rnd_sk(rng)
        sig = rsign.sign_schnorr(key, d if d else b'\x00' * 32, tht)
        if sat == 'sig-first-byte-0x50':
            # a lone key-path signature is never an annex, whatever its first byte is (BIP341: only with two or more elements)
            sig = secp.schnorr_sign_nonce(key, d if d else b'\x00' * 32, secp.nonce_with_first_byte(0x50, rng.choice([1, 300, 5000]))) + (bytes([tht]) if tht else b'')
        if sat == 'bad-sig-size':
            sig = sig + b'\x01\x01'
        wit = [sig] + ([annex] if annex is not None else [])
    else:
        annex = b'\x50\x01\x02' if sat in ('annex', 'many-checks-annex') or sat.endswith('-annex') else None
        leaf = taproot.tapleaf_hash(tap_script, leaf_version)
        tht = rng.choice([0, 0, 1, 0x82])
        d = sighash.sighash_taproot(tx, idx, tht, spent, 1, annex, leaf, 0xffffffff)
        key = sk if sat != 'wrong-key' else rsign.rnd_sk(rng)
        if tap_kind == 'checksig':
            args = [rsign.sign_schnorr(key, d, tht)]
        elif tap_kind == 'hashlock':
            args = [pre if sat != 'wrong-key' else pre + b'x']
        elif tap_kind == 'checksigadd':
            args = [rsign.sign_schnorr(sk3, d, tht), rsign.sign_schnorr(key, d, tht)]
        elif tap_kind == 'stack':
            args = [b'\x01'] * nst
        else:
            args = [b'\x01'] if sat == 'op-success' else [b'\x01']
        if sat == 'false-result' and tap_kind != 'hashlock':
            args = [b''] * len(args)
        ctl = control
        if sat == 'control-parity':
            ctl = bytes([ctl[0] ^ 1]) + ctl[1:]
        elif sat == 'control-internal-key':
            ctl = ctl[:1] + secp.xonly_from_sec(rsign.rnd_sk(rng)) + ctl[33:]
        elif sat == 'control-node':
            ctl = (ctl[:-1] + bytes([ctl[-1] ^ 1])) if len(ctl) > 33 else ctl + rsign.rnd_bytes(rng, 32)
        elif sat == 'control-leaf-version':
            ctl = bytes([ctl[0] ^ 0x02]) + ctl[1:]
        elif sat == 'control-truncated':
            ctl = ctl[:-rng.choice([1, 16, 31])]
        scr = tap_script if sat != 'wrong-script' else tap_script + bytes([OP_NOP])
        wit = args + [scr, ctl] + ([annex] if annex is not None else [])
    # ---- generic satisfactions on the assembled spend
    if sat == 'empty-witness':
        # a witness program must be given a witness: spending it with an empty one is invalid (WITNESS_PROGRAM_WITNESS_EMPTY)
        wit = []
    elif sat == 'extra-witness-item':
        wit = [b'\x01'] + wit
    elif sat == 'missing-witness-item' and wit:
        wit = wit[1:]
    elif sat == 'witness-item-521':
        n521 = rng.choice([519, 520, 521, 521, 522])
        wit = [b'\x07' * n521, wscript]
        note.append('script OP_DROP OP_1 with a %d-byte witness item: only the 520-byte rule decides' % n521)
    elif sat == 'leftover-stack':
        if wit:
            wit = [b'\x01'] + wit
        else:
            ssig = bytes([OP_1]) + ssig
    elif sat == 'non-push-scriptsig':
        ssig = bytes([OP_1, OP_DROP]) + ssig if otype != 'p2pk' else bytes([OP_NOP]) + ssig
    elif sat == 'nonempty-scriptsig':
        ssig = bytes([OP_1])
    elif sat == 'scriptsig-trailing-op':
        ssig = ssig + bytes([OP_NOP])
    elif sat == 'scriptsig-nonminimal-push':
        r2 = redeem
        ssig = bytes([OP_PUSHDATA1, len(r2)]) + r2
    elif sat == 'unexpected-witness':
        wit = [b'\x01']
    elif sat == 'split-conditional':
        # scriptSig leaves a conditional open that the scriptPubKey closes: each script must balance on its own
        ssig = ssig + bytes([OP_1, OP_IF])
        note.append('scriptPubKey would need OP_ENDIF first; unbalanced scriptSig must fail')
    elif sat == 'altstack-carry':
        ssig = ssig + bytes([OP_1, OP_TOALTSTACK])
    tx.vin[idx][2] = ssig
    tx.wit[idx] = wit
    if sat == 'other-input-has-witness':
        # a transaction of mixed kinds: the input under test is a legacy one, another input carries a witness
        j = rng.choice([i for i in range(nin) if i != idx])
        tx.wit[j] = [rsign.rnd_bytes(rng, 71), secp.pub_from_sec(rsign.rnd_sk(rng))]
    # ---- post-signing alterations
    if sat == 'altered-output' and tx.vout:
        v, s = tx.vout[0]
        tx.vout[0] = (v + 1, s)
    elif sat == 'altered-sequence':
        tx.vin[idx][3] ^= 1
    elif sat == 'altered-locktime':
        tx.locktime ^= 1
    elif sat == 'wrong-amount':
        fund_amount = amount + 1
        outs[fvout] = (fund_amount, spk)
        fund.vout = outs
        tx.vin[idx][0] = rtx.txid(fund)
        spent[idx] = (fund_amount, spk)
    return dict(tx=tx, fund=fund, idx=idx, fvout=fvout, amount=fund_amount, spk=spk, spent=spent if otype.startswith('p2tr') else None, note=note, nin=nin)


def pick_flags(rng, otype):
    r = rng.random()
    if r < 0.6:
        return STANDARD, 'standard'
    m = rng.choice(FLAGMODS[otype])
    if m.endswith('+'):
        return STANDARD | F[m[:-1]], '+' + m[:-1]
    f = STANDARD & ~F[m]
    if m in ('P2SH', 'WITNESS'):
        f &= ~F["CLEANSTACK"]      # CLEANSTACK requires P2SH and WITNESS (consensus asserts this)
        if m == 'P2SH':
            f &= ~F["WITNESS"]     # WITNESS requires P2SH
    return f, '-' + m


def flagstr(flags):
    parts = []
    for n in FLAG_NAMES:
        if (STANDARD & F[n]) and not (flags & F[n]):
            parts.append('-' + n)
        if not (STANDARD & F[n]) and (flags & F[n]):
            parts.append('+' + n)
    return ','.join(parts)


def impl_verdict(evs, flags, segwit_like):
    """lenient reading of the debugger's session result -> ('valid'|'invalid'|'refused', detail)"""
    cf = [e for k, e in evs if k == 'CF']
    if not cf:
        return 'refused', 'no-configure'
    if cf[0][1] != '1':
        return 'refused', 'configure'
    u = [e for k, e in evs if k == 'U']
    if not u or not u[0].ret:
        return 'refused', 'setup'
    steps = [e for k, e in evs if k == 'S']
    last = steps[-1] if steps else u[0]
    if not last.done or (steps and not last.ret):
        return 'invalid', 'error:' + (last.exc or last.err)
    st = last.stack
    if not st or not cast_bool(st[-1]):
        return 'invalid', 'final-stack-false'
    wit_sv = last.sv in (1, 3)
    if (wit_sv or flags & F["CLEANSTACK"]) and len(st) != 1:
        return 'invalid', 'final-stack-not-clean'
    return 'valid', ''


def scenario_cmds(cid, sc, select):
    return ['N ' + cid, 'TX ' + rtx.ser_tx(sc['tx']).hex().encode().hex(), 'TI %s %d' % (rtx.ser_tx(sc['fund']).hex().encode().hex(), select),
            'FL %d' % sc['flags'], 'CF', 'SU', 'CS']


def worker(job):
    bindir, idx, n, tier = job
    rng = sub_rng(PROP, idx)
    part = Partial()
    wd = scratch('c03')
    try:
        scs = []
        combos = [(t, s) for t in TYPES for s in SATS[t]]
        for i in range(n):
            otype, sat = combos[(idx * n + i) % len(combos)] if i < len(combos) * 2 else rng.choice(combos)
            try:
                sc = build(rng, otype, sat)
            except Exception as e:
                part.inconc('builder:%s/%s:%s' % (otype, sat, type(e).__name__))
                continue
            sc['otype'], sc['sat'] = otype, sat
            sc['flags'], sc['flagmod'] = pick_flags(rng, otype)
            if sat == 'undefined-hashtype' and rng.random() < 0.8:
                sc['flags'], sc['flagmod'] = STANDARD & ~F["STRICTENC"], '-STRICTENC'
            sel = rng.random()
            sc['select'] = -1 if sel < 0.5 else sc['idx']
            sc['id'] = 'v%d.%d' % (idx, i)
            scs.append(sc)
            # a wrong explicit selection must be refused (only meaningful with >1 inputs)
            if sc['nin'] > 1 and rng.random() < 0.3:
                w = dict(sc)
                w['select'] = (sc['idx'] + 1) % sc['nin']
                w['id'] = sc['id'] + 'w'
                w['wrong_select'] = True
                scs.append(w)
            if rng.random() < 0.05:
                w = dict(sc)
                w['select'] = sc['nin'] + rng.choice([0, 1, 100])
                w['id'] = sc['id'] + 'o'
                w['wrong_select'] = True
                scs.append(w)
        events, crashes, hangs = run_harness_cases(bindir, [(sc['id'], scenario_cmds(sc['id'], sc, sc['select'])) for sc in scs], wd)
        by = {sc['id']: sc for sc in scs}
        for cr in crashes:
            sc = by.get(cr.case_id)
            part.violation('%s/%s:crash:%s' % (sc['otype'], sc['sat'], cr.key) if sc else 'crash:' + cr.key,
                           dict(id=cr.case_id, tx=rtx.ser_tx(sc['tx']).hex() if sc else None, txin=rtx.ser_tx(sc['fund']).hex() if sc else None, log=cr.log[-1500:]))
        bsample = []
        for sc in scs:
            judge(sc, parse_events(events.get(sc['id'], [])), part)
            if not sc.get('wrong_select') and zlib_crc(sc['id']) % (3 if tier == 'quick' else 6) == 0:
                bsample.append(sc)
        # the real binary on a sample: btcdeb --tx --txin, stdin a pty, stdout a pipe
        btcdeb = os.path.join(bindir, 'btcdeb')
        for sc in bsample:
            args = ['--tx=' + rtx.ser_tx(sc['tx']).hex(), '--txin=' + rtx.ser_tx(sc['fund']).hex()]
            if sc['select'] >= 0:
                args.append('--select=%d' % sc['select'])
            fs = flagstr(sc['flags'])
            if fs:
                args.append('--modify-flags=' + fs)
            r = proc.run([btcdeb] + args, wd, mode='ptyin', timeout=30)
            judge_binary(sc, r, part)
            if zlib_crc(sc['id'] + 'sel') % 4 == 0:
                # a selection that is not a plain index must be refused, never read as some other input
                bad = rng.choice(['abc', '-2', '-1x', '1x', '', '4294967296', '4294967297', '0x0', ' 0', '99999999999999999999', '+0', '0.0'])
                args2 = [a for a in args if not a.startswith('--select=')] + ['--select=' + bad]
                r2 = proc.run([btcdeb] + args2, wd, mode='ptyin', timeout=30)
                part.evaluations += 1
                part.count('selection', 'malformed-select:' + ('refused' if r2.rc not in (0, None) else 'accepted'))
                w2 = dict(wit_of(sc), select_text=bad, run=r2.brief())
                if r2.abnormal:
                    part.violation('selection:malformed-select:' + r2.crash_key('btcdeb'), w2)
                elif r2.rc == 0 or not r2.stderr.strip():
                    part.violation('selection:malformed-select-accepted', w2)
    finally:
        cleanup_scratch(wd)
    return part.dump()


INTRINSIC = ('multi-input', 'op-success', 'unknown-leaf-version')
LAYER_FLAGS = ('-WITNESS', '-TAPROOT', '-P2SH')


def vkey(sc, direction):
    """violation key: scenario-intrinsic findings are keyed by scenario, whole-layer flag switches by flag"""
    scen = '%s/%s' % (sc['otype'], sc['sat'])
    fm = sc['flagmod']
    if sc['sat'] in INTRINSIC:
        return '%s:%s' % (direction, scen)
    if fm in LAYER_FLAGS:
        return '%s:flag%s:%s' % (direction, fm, scen)
    return '%s:%s%s' % (direction, scen, '' if fm == 'standard' else ':' + fm)


def zlib_crc(s):
    import zlib
    return zlib.crc32(s.encode())


def ref_verdict(sc):
    spent = sc['spent']
    if spent is None and len(sc['tx'].vin) == 1:
        spent = [(sc['amount'], sc['spk'])]
    ok, err = verify.verify_input(sc['tx'], sc['idx'], sc['spk'], sc['amount'], sc['flags'], spent)
    return ok, err


def wit_of(sc):
    return dict(id=sc['id'], scenario='%s/%s' % (sc['otype'], sc['sat']), flags=sc['flagmod'], tx=rtx.ser_tx(sc['tx']).hex(), txin=rtx.ser_tx(sc['fund']).hex(), select=sc['select'],
                input=sc['idx'], note=sc['note'])


def judge(sc, evs, part):
    part.evaluations += 1
    wit = wit_of(sc)
    key0 = '%s/%s' % (sc['otype'], sc['sat'])
    if any(k == 'CRASH' for k, e in evs):
        return
    ti = [e for k, e in evs if k == 'TI']
    txe = [e for k, e in evs if k == 'TX']
    if not txe or txe[0][1] != '1':
        part.violation(key0 + ':spending-tx-refused', wit)
        return
    if not ti:
        part.inconc('no-TI')
        return
    if sc.get('wrong_select'):
        part.count('selection', 'wrong-select:' + ('refused' if ti[0][1] != '1' else 'accepted'))
        if ti[0][1] == '1':
            part.violation('selection:wrong-select-accepted', wit)
        else:
            part.nontrivial.add(nt_hash('sel', sc['id']))
        return
    if ti[0][1] != '1':
        part.violation(key0 + ':funding-tx-refused', wit)
        return
    if int(ti[0][3]) != sc['idx'] or int(ti[0][4]) != sc['fvout']:
        wit['got'] = ti[0][3:5]
        part.violation('selection:wrong-input-or-output-selected', wit)
        return
    ok, err = ref_verdict(sc)
    v, detail = impl_verdict(evs, sc['flags'], sc['otype'] in SEGWIT)
    cf = [e for k, e in evs if k == 'CF']
    if cf and cf[0][1] == '1' and sc['otype'] == 'p2tr-script':
        u = [e for k, e in evs if k == 'U']
        w = sc['tx'].wit[sc['idx']]
        if u and u[0].ret and u[0].sv == 3:
            want_w = verify.witness_serialized_size(w) + VALIDATION_WEIGHT_OFFSET
            if u[0].weight != want_w:
                wit['weight'] = (u[0].weight, want_w)
                part.violation('p2tr-script:initial-validation-weight-differs', wit)
                return
    if cf and cf[0][1] == '1':
        if int(cf[0][7]) != sc['amount']:
            wit['amount'] = (cf[0][7], sc['amount'])
            part.violation(key0 + ':amount-not-taken-from-referenced-output', wit)
            return
    part.count('scenarios', '%s/%s [%s] ref=%s impl=%s' % (sc['otype'], sc['sat'], 'std' if sc['flagmod'] == 'standard' else sc['flagmod'], 'valid' if ok else err, v))
    if ok and v != 'valid':
        wit['impl'] = detail
        part.violation(vkey(sc, 'rejects-valid'), wit)
        return
    if not ok and v == 'valid':
        wit['ref'] = err
        part.violation(vkey(sc, 'accepts-invalid'), wit)
        return
    part.nontrivial.add(nt_hash(key0, sc['flagmod'], sc['select'], sc['nin']))
    part.sample(dict(scenario=key0, flags=sc['flagmod'], inputs=sc['nin'], input=sc['idx'], select=sc['select'], reference='valid' if ok else err, btcdeb=v + (':' + detail if detail else '')), limit=3)


def judge_binary(sc, r, part):
    key0 = '%s/%s' % (sc['otype'], sc['sat'])
    wit = wit_of(sc)
    wit['run'] = r.brief()
    part.count('binary_runs', 'n')
    if r.abnormal:
        part.violation('%s:binary:%s' % (key0, r.crash_key('btcdeb')), wit)
        return
    ok, err = ref_verdict(sc)
    out = r.stdout.decode('latin1').split('\n')
    if out and out[-1] == '':
        out.pop()
    if r.rc == 0:
        st = [bytes.fromhex(l) if l else b'' for l in out if all(ch in '0123456789abcdef' for ch in l)]
        v = 'valid'
        if not st or not cast_bool(st[-1]):
            v = 'invalid'
        elif (sc['otype'] in SEGWIT or sc['flags'] & F["CLEANSTACK"]) and len(st) != 1:
            v = 'invalid'
    else:
        v = 'invalid'
    if ok and v != 'valid':
        part.violation(vkey(sc, 'rejects-valid'), wit)
    elif not ok and v == 'valid':
        wit['ref'] = err
        part.violation(vkey(sc, 'accepts-invalid'), wit)


def doc_pairs(bindir, part):
    """the six real-chain pairs are always included"""
    d = os.path.join(vbuild.repo(), 'doc', 'txs')
    wd = scratch('c03d')
    try:
        cases = []
        want = {'p2pkh': True, 'p2sh-multisig-2-of-2': True, 'p2sh-multisig-invalid-order': False, 'p2sh-p2wpkh': True, 'p2tr': True, 'p2ts': True}
        for name in want:
            txh = open(os.path.join(d, name + '-tx')).read().strip()
            inh = open(os.path.join(d, name + '-in')).read().strip()
            cases.append((name, ['N ' + name, 'TX ' + txh.encode().hex(), 'TI %s -1' % inh.encode().hex(), 'FL %d' % STANDARD, 'CF', 'SU', 'CS']))
        events, crashes, hangs = run_harness_cases(bindir, cases, wd)
        for cr in crashes:
            part.violation('doc-txs/%s:crash:%s' % (cr.case_id, cr.key), dict(log=cr.log[-1500:]))
        for name, w in want.items():
            evs = parse_events(events.get(name, []))
            part.evaluations += 1
            v, detail = impl_verdict(evs, STANDARD, True)
            part.count('scenarios', 'doc-txs/%s ref=%s impl=%s' % (name, 'valid' if w else 'invalid', v))
            if (v == 'valid') != w:
                part.violation('doc-txs/%s:%s' % (name, 'rejects-valid' if w else 'accepts-invalid'), dict(name=name, impl=detail))
            else:
                part.nontrivial.add(nt_hash('doc', name))
    finally:
        cleanup_scratch(wd)


def main():
    ap = argparse.ArgumentParser()
    ap.add_argument('--tier', default=os.environ.get('VERIF_TIER', 'quick'))
    ap.add_argument('--replay')
    a = ap.parse_args()
    bindir = vbuild.build('asan')
    rep = Reporter(PROP, a.tier)
    if a.replay:
        d = json.load(open(a.replay))
        for w in d['witnesses']:
            print(json.dumps(w, indent=1)[:4000])
            if w and w.get('tx'):
                print('reproduce: btcdeb --tx=%s --txin=%s%s' % (w['tx'], w['txin'], (' --select=%d' % w['select']) if w.get('select', -1) >= 0 else ''))
        return 0
    part = Partial()
    doc_pairs(bindir, part)
    rep.merge(part.dump())
    n = 200 if a.tier == 'quick' else 4000
    for r in parallel(worker, [(bindir, i, n, a.tier) for i in range(16)]):
        rep.merge(r)
    return rep.finish(
        rule='scenario matrix with stable ids: output type {bare pubkey, bare multisig, P2PKH, P2SH(multisig, hashlock), P2WPKH, P2WSH, P2SH-P2WPKH, P2SH-P2WSH, P2TR key path, P2TR script path with path length 0..3,128} '
             'x satisfaction {valid, wrong key, wrong script/pubkey hash, wrong amount, altered output/sequence/locktime, extra/missing witness item, 521-byte witness item, non-push scriptSig, trailing scriptSig op, wrong control block fields, '
             'annex, unexpected witness, leftover stack, split conditional, alt-stack carry-over, OP_SUCCESS, unknown leaf version, empty script, multi-input} x input position 0..3 / funding output 0..2 / explicit, implicit and wrong selection '
             'x flag modification; keys, amounts and transactions random per seed; every scenario through the native harness, one third also through the real btcdeb binary; the six doc/txs pairs always. '
             'non-trivial = distinct (scenario, flag modification, selection mode, number of inputs) whose verdict was compared',
        assumptions=['ref/verify.py is consensus input validation (anchored on doc/txs)', 'btcdeb verdict read leniently: set up + runs to the end without error + final stack as validation requires'],
        min_events=100)


if __name__ == '__main__':
    main_wrapper(main)
