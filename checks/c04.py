"""C04 — rewind exactly undoes steps.

Events : full state after every Instance::step()/rewind() of a command history, and after continuing to the
         end; the digests the signature opcodes computed (captured log lines) count as part of the trace.
Oracle : relational — the state after history h must equal the state of a FRESH session of the same
         implementation advanced by net(h) steps, component by component, and continuing both to the end must
         give the same events; a refused rewind must leave everything unchanged.  Only histories in which no
         step fails are judged (as the property says).
"""
import sys, os, argparse, json, itertools
sys.path.insert(0, os.path.dirname(os.path.dirname(os.path.abspath(__file__))))
from vf.common import *
from vf import build as vbuild
from ref.script import *
from ref import taproot
from checks import gen
from checks.lockstep import parse_events, Ev

PROP = 'C04'
FIELDS = ['stack', 'altstack', 'condition-stack', 'opcount', 'position', 'codehash-start', 'op-sequence', 'done-flag', 'codeseparator-pos', 'sig-budget', 'p2sh-flag', 'commitment-index', 'pending-script', 'opcode-position']


def doc(name):
    return open(os.path.join(vbuild.repo(), 'doc', 'txs', name)).read().strip()


def asm(*parts):
    out = b''
    for p in parts:
        if isinstance(p, int):
            out += bytes([p])
        elif isinstance(p, bytes):
            out += push_data(p)
        else:
            raise TypeError(p)
    return out


SIG_DER = bytes.fromhex('30440220658663763665ae1332f2e844249a86ce093e45670507d8d40177037627a42e0e0220043c2242278f66b416a61296086d94bf61906a282a12bd63527ff3a8ad3f9eb801')
PUB33 = bytes.fromhex('02' + '79be667ef9dcbbac55a06295ce870b07029bfcdb2dce28d959f2815b16f81798')
KEY33_UPG = b'\x05' + bytes(range(32))      # tapscript: unknown (upgradable) public key type of 33 bytes
SIG64 = bytes(range(1, 65))


def fixed_scripts():
    """(name, case dict) — each makes one component of per-step state live at the rewound step"""
    S = []

    def add(name, script, stack=(), flags=STANDARD, sv=BASE, succ=b'', tx=None, xd=None):
        S.append(dict(name=name, script=script, stack=list(stack), flags=flags, sv=sv, succ=succ, tx=tx, xd=xd))
    add('if-else', asm(OP_0, OP_IF, OP_2, OP_ELSE, OP_3, OP_ENDIF, OP_5))
    add('nested-if', asm(OP_1, OP_IF, OP_0, OP_IF, OP_2, OP_ELSE, OP_3, OP_ENDIF, OP_ELSE, OP_4, OP_ENDIF, OP_0, OP_NOTIF, OP_7, OP_ENDIF))
    add('notif-else-else', asm(OP_1, OP_NOTIF, OP_2, OP_ELSE, OP_3, OP_ELSE, OP_4, OP_ENDIF))
    add('altstack', asm(OP_1, OP_2, OP_TOALTSTACK, OP_3, OP_TOALTSTACK, OP_FROMALTSTACK, OP_ADD, OP_FROMALTSTACK))
    add('stack-ops', asm(OP_1, OP_2, OP_3, OP_ROT, OP_SWAP, OP_2DUP, OP_ADD, OP_NIP, OP_TUCK, OP_DEPTH))
    add('multisig-opcount', asm(OP_0, OP_0, PUB33, PUB33, PUB33, OP_3, OP_CHECKMULTISIG, OP_NOP, OP_0, OP_0, PUB33, OP_1, OP_CHECKMULTISIG))
    add('codesep-base', asm(OP_1, OP_CODESEPARATOR, SIG_DER, PUB33, OP_CHECKSIG, OP_CODESEPARATOR, SIG_DER, PUB33, OP_CHECKSIG, OP_NOP, SIG_DER, PUB33, OP_CHECKSIG),
        flags=0, tx=('legacy',))
    add('codesep-v0', asm(OP_1, OP_CODESEPARATOR, SIG_DER, PUB33, OP_CHECKSIG, OP_DROP, OP_CODESEPARATOR, OP_NOP, SIG_DER, PUB33, OP_CHECKSIG),
        flags=F["WITNESS"] | F["P2SH"], sv=WITNESS_V0, tx=('legacy',))
    add('codesep-in-branch-base', asm(OP_0, OP_IF, OP_CODESEPARATOR, OP_ENDIF, OP_1, OP_IF, OP_CODESEPARATOR, OP_ENDIF, SIG_DER, PUB33, OP_CHECKSIG), flags=0, tx=('legacy',))
    add('tapscript-budget', asm(SIG64, KEY33_UPG, OP_CHECKSIG, OP_CODESEPARATOR, SIG64, KEY33_UPG, OP_CHECKSIGVERIFY, OP_1, OP_IF, OP_CODESEPARATOR, OP_ENDIF,
                                  SIG64, OP_0, KEY33_UPG, OP_CHECKSIGADD, b'', KEY33_UPG, OP_CHECKSIG),
        flags=STANDARD & ~F["DISCOURAGE_UPGRADABLE_PUBKEYTYPE"], sv=TAPSCRIPT, tx=('taproot',), xd=('leaf', 'none', 400))
    add('tapscript-codesep-digest', asm(OP_1, OP_CODESEPARATOR, OP_2, OP_CODESEPARATOR, OP_DROP, OP_DROP, SIG64, bytes(range(32, 64)), OP_CHECKSIG),
        flags=STANDARD, sv=TAPSCRIPT, tx=('taproot',), xd=('leaf', 'none', 400))
    # a script-path session: the commitment steps come first (they advance the step counter, not the opcode position)
    tscr = asm(OP_1, OP_CODESEPARATOR, OP_2, OP_CODESEPARATOR, OP_DROP, OP_DROP, SIG64, KEY33_UPG, OP_CHECKSIG)
    ikey = PUB33[1:]
    nodes = [bytes([7]) * 32, bytes([0xf0]) * 32]
    kk = taproot.tapleaf_hash(tscr)
    for nd in nodes:
        kk = taproot.tapbranch(kk, nd)
    q, par = taproot.output_key(ikey, kk)
    add('tapscript-after-commitment', tscr, flags=STANDARD & ~F["DISCOURAGE_UPGRADABLE_PUBKEYTYPE"], sv=TAPSCRIPT, tx=('taproot',), xd=('-', 'none', 400))
    S[-1]['tce'] = (bytes([0xc0 | par]) + ikey + b''.join(nodes), q)
    redeem = asm(OP_1, OP_2, OP_ADD, OP_3, OP_EQUAL)
    add('scriptsig-spk-p2sh', asm(OP_7, redeem), succ=bytes([OP_HASH160, 20]) + hash160(redeem) + bytes([OP_EQUAL]))
    add('scriptsig-spk', asm(OP_2, OP_3), succ=asm(OP_ADD, OP_5, OP_EQUAL, OP_1, OP_IF, OP_NOP, OP_ENDIF))
    add('p2sh-plain', bytes([OP_HASH160, 20]) + hash160(redeem) + bytes([OP_EQUAL]), stack=[b'\x09', redeem])
    add('near-201-ops', bytes([OP_NOP]) * 196 + asm(OP_1, OP_1, OP_ADD, OP_DUP, OP_DROP))
    add('hashes', asm(b'abc', OP_SHA256, OP_DUP, OP_HASH160, OP_SWAP, OP_RIPEMD160, OP_SIZE))
    # sessions with nothing (or next to nothing) to execute: every rewind must be refused and change nothing
    add('empty-script', b'', stack=[b'\x01'])
    add('empty-script-empty-stack', b'')
    add('one-op', asm(OP_1))
    add('empty-scriptsig-then-spk', b'', succ=asm(OP_1, OP_DUP))
    return S


def tx_cmds(c):
    cmds = []
    if c.get('tx'):
        if c['tx'][0] == 'legacy':
            cmds.append('TX %s' % ('0.5:' + doc('p2pkh-tx')).encode().hex())
            cmds.append('TI %s -1' % doc('p2pkh-in').encode().hex())
        else:
            cmds.append('TX %s' % doc('p2tr-tx').encode().hex())
            cmds.append('TI %s -1' % doc('p2tr-in').encode().hex())
    if c.get('xd'):
        leaf, annex, weight = c['xd']
        cmds.append('XD %s %s %d' % (sha256(c['script']).hex() if leaf == 'leaf' else '-', annex, weight))
    return cmds


def session_cmds(cid, c, tail):
    cmds = ['N %s' % cid] + tx_cmds(c) + ['SV %d' % c['sv'], 'FL %d' % c['flags'], 'SC %s' % hexs(c['script'])]
    if c['stack']:
        cmds.append('ST %s' % items(c['stack']))
    if c.get('succ'):
        cmds.append('SS %s' % hexs(c['succ']))
    if c.get('tce'):
        cmds.append('TCE %s %s %s' % (c['tce'][0].hex(), c['tce'][1].hex(), hexs(c['script'])))
    cmds.append('SU')
    return cmds + list(tail)


def fold(lines):
    """-> list of (Ev, [digest lines]) for state events; None markers for CSEND"""
    out = []
    hs = []
    for k, e in parse_events(lines):
        if k == 'H':
            hs.append(' '.join(e[1:]))
        elif k in ('U', 'S', 'R'):
            out.append((e, hs))
            hs = []
        elif k == 'CRASH':
            out.append(('CRASH', e))
    return out


def outcome(e):
    # the error slot is only meaningful for a step that failed
    return (e.ret, None if e.ret else e.err, e.exc)


def first_diff(a, b):
    for i, (x, y) in enumerate(zip(a, b)):
        if x != y:
            return FIELDS[i]
    return None


def judge_history(c, hist, base, evs, part):
    """base: list of (Ev, H) of the fresh session: base[0] = after setup, base[k] = after k steps.
    evs: events of the history run: [setup] + one per command + continuation steps."""
    wit = dict(script=c['script'].hex(), name=c.get('name'), stack=[x.hex() for x in c['stack']], flags=c['flags'], sv=c['sv'], succ=c.get('succ', b'').hex(), history=hist,
               tx=c.get('tx'), xd=c.get('xd'))
    part.evaluations += 1
    if any(e[0] == 'CRASH' for e in evs):
        return
    if not evs or len(evs) < 1 + len(hist):
        part.inconc('short-event-list')
        return
    if evs[0][0].state() != base[0][0].state():
        part.violation('nondeterministic-setup', wit)
        return
    k = 0
    nsteps = len(base) - 1
    last_ok = nsteps if base[-1][0].ret else nsteps - 1    # index of the last successfully reached state
    pos = 1
    nrew = nacc = 0
    for cmd in hist:
        e, hs = evs[pos]
        pos += 1
        if cmd == 'S':
            if k >= last_ok:
                # either at the end (step refused) or the next step fails: the history is no longer in the
                # judged domain ("no step fails") beyond this point; the event must still equal the fresh one
                if k < nsteps:
                    b = base[k + 1][0]
                    if outcome(e) != outcome(b):
                        part.violation('failing-step-differs-after-history', wit)
                    return
                if e.ret or e.state() != base[k][0].state():
                    part.violation('step-at-end-changes-state:' + (first_diff(e.state(), base[k][0].state()) or 'accepted'), wit)
                continue
            k += 1
            b, bh = base[k]
            if not e.ret:
                part.violation('step-fails-after-rewind', wit)
                return
            d = first_diff(e.state(), b.state())
            if d:
                wit['at'] = pos - 1
                part.violation('state-after-step-differs-from-fresh-session:' + d, wit)
                return
            if hs != bh:
                wit['digests'] = [hs, bh]
                part.violation('signature-digest-differs-after-rewind', wit)
                return
        else:
            nrew += 1
            if e.ret:
                nacc += 1
                if k == 0:
                    part.violation('rewind-accepted-at-start', wit)
                    return
                k -= 1
                d = first_diff(e.state(), base[k][0].state())
                if d:
                    wit['at'] = pos - 1
                    part.violation('rewind-does-not-restore:' + d, wit)
                    return
            else:
                d = first_diff(e.state(), base[k][0].state())
                if d:
                    wit['at'] = pos - 1
                    part.violation('refused-rewind-changes-state:' + d, wit)
                    return
    part.count('rewinds', 'issued', nrew)
    part.count('rewinds', 'accepted', nacc)
    # continuation to the end must replay the fresh session's remaining events
    rest = evs[pos:]
    want = base[k + 1:]
    if len(rest) != len(want):
        wit['continuation'] = (len(rest), len(want))
        part.violation('continuation-length-differs', wit)
        return
    for (e, hs), (b, bh) in zip(rest, want):
        if outcome(e) != outcome(b):
            part.violation('continuation-outcome-differs', wit)
            return
        d = first_diff(e.state(), b.state())
        if d and b.ret:
            part.violation('continuation-state-differs:' + d, wit)
            return
        if hs != bh:
            wit['digests'] = [hs, bh]
            part.violation('continuation-digest-differs', wit)
            return
    if nacc:
        part.nontrivial.add(nt_hash(c['script'], tuple(hist)))
    part.count('history_shape', 'len=%d,rewinds=%d' % (len(hist), nrew))


def histories_tree(depth):
    return [''.join(p) for d in range(1, depth + 1) for p in itertools.product('SR', repeat=d)] if depth <= 6 else [''.join(p) for p in itertools.product('SR', repeat=depth)]


def random_walk(rng, nsteps_total, length):
    """biased to hover: runs of steps and rewinds of random lengths"""
    h = []
    k = 0
    while len(h) < length:
        if rng.random() < 0.55:
            n = rng.randint(1, max(1, min(8, nsteps_total)))
            h += ['S'] * n
        else:
            n = rng.randint(1, 6)
            h += ['R'] * n
    return ''.join(h[:length])


def run_script(bindir, c, hists, part, wd, tag):
    cases = [(tag + '.base', session_cmds(tag + '.base', c, ['CS']))]
    for i, h in enumerate(hists):
        cases.append(('%s.%d' % (tag, i), session_cmds('%s.%d' % (tag, i), c, list(h) + ['CS'])))
    events, crashes, hangs = run_harness_cases(bindir, cases, wd)
    for cr in crashes:
        part.violation('crash:' + cr.key, dict(script=c['script'].hex(), id=cr.case_id, log=cr.log[-1500:]))
    base = fold(events.get(tag + '.base', []))
    if not base or base[0] == 'CRASH' or any(b[0] == 'CRASH' for b in base):
        part.inconc('baseline-crashed')
        return
    if not base[0][0].ret:
        part.inconc('baseline-setup-failed')
        return
    part.count('baseline_steps', c.get('name') or 'generated', len(base) - 1)
    for i, h in enumerate(hists):
        judge_history(c, h, base, fold(events.get('%s.%d' % (tag, i), [])), part)
    part.sample(dict(script=c['script'].hex()[:200], name=c.get('name'), histories=len(hists), example_history=hists[len(hists) // 2], steps_in_fresh_session=len(base) - 1), limit=1)


def worker(job):
    bindir, kind, idx, tier = job
    part = Partial()
    wd = scratch('c04')
    rng = sub_rng(PROP, kind, idx)
    depth = 10 if tier == 'quick' else 12
    try:
        if kind == 'fixed':
            fs = fixed_scripts()
            c = fs[idx]
            nst = len(decode_all(c['script']) or []) + len(decode_all(c.get('succ', b'')) or [])
            if nst <= 16:
                hists = [''.join(p) for p in itertools.product('SR', repeat=depth)]
                if tier == 'quick' and nst > 9:
                    hists = hists[::2]
            else:
                hists = []
            hists += [random_walk(rng, nst, rng.choice([20, 60, 200, 600])) for _ in range(40 if tier == 'quick' else 1000)]
            run_script(bindir, c, hists, part, wd, 'f%d' % idx)
        else:
            n = 6 if tier == 'quick' else 24
            for j in range(n):
                sv = rng.choice([BASE, WITNESS_V0, TAPSCRIPT])
                fl = rng.choice([STANDARD, STANDARD, 0, STANDARD & ~F["MINIMALIF"]])
                st = gen.rnd_stack(rng)[:4]
                s = gen.strip_sigops(gen.gen_deep(rng, sv, fl, rng.choice([4, 6, 8, 12, 30]), st, fail_keep=0.1))
                if sv == TAPSCRIPT:
                    # keep OP_SUCCESS opcodes out: they are a separate, listed C01 finding
                    ops = decode_all(s) or []
                    if any(is_op_success(o) for o, d in ops):
                        continue
                c = dict(script=s, stack=st, flags=fl, sv=sv, succ=b'')
                nst = len(decode_all(s) or [])
                if nst <= 8:
                    d2 = min(depth, 9)
                    hists = [''.join(p) for p in itertools.product('SR', repeat=d2)]
                else:
                    hists = []
                hists += [random_walk(rng, nst, rng.choice([10, 30, 100, 400])) for _ in range(30)]
                run_script(bindir, c, hists, part, wd, 'g%d_%d' % (idx, j))
    finally:
        cleanup_scratch(wd)
    return part.dump()


def dump_state(d):
    return (tuple(d['stack']), tuple(d['alt']), d['vfsize'], d['vfff'], d['pc'], d['nop'], d['seq'], d['done'], d['script'], d['tce'])


def repl_worker(job):
    """the same relation through the real command table (fn_step / fn_rewind) of the btcdeb binary"""
    bindir, idx, n = job
    from vf import proc
    rng = sub_rng(PROP, 'repl', idx)
    part = Partial()
    wd = scratch('c04r')
    btcdeb = os.path.join(bindir, 'btcdeb')
    try:
        fs = [c for c in fixed_scripts() if not c.get('tx') and not c.get('succ')]
        for j in range(n):
            if rng.random() < 0.5:
                c = rng.choice(fs)
                script, stack = c['script'], c['stack']
            else:
                stack = gen.rnd_stack(rng)[:3]
                script = gen.strip_sigops(gen.gen_deep(rng, BASE, STANDARD, rng.choice([3, 6, 10]), stack, fail_keep=0.0)) or bytes([OP_1])
            nops = len(decode_all(script) or [])
            args = ['0x' + script.hex()] + ['0x' + x.hex() for x in stack]
            r0, base = proc.repl_session(btcdeb, args, ['step'] * (nops + 1), wd, timeout=60)
            if r0.abnormal or len(base) != nops + 2:
                part.inconc('repl-baseline')
                continue
            # states of the fresh session; stop at the first failing step
            bstates = [dump_state(s['dump']) for s in base]
            last_ok = 0
            for k in range(1, len(bstates)):
                if bstates[k][6] == bstates[k - 1][6] and not bstates[k][7]:
                    break       # the step did not advance: it failed
                last_ok = k
            hist = random_walk(rng, nops, rng.choice([8, 20, 40]))
            r, segs = proc.repl_session(btcdeb, args, ['step' if ch == 'S' else 'rewind' for ch in hist], wd, timeout=60)
            part.evaluations += 1
            wit = dict(script=script.hex(), stack=[x.hex() for x in stack], history=hist, via='btcdeb REPL')
            if r.abnormal:
                part.violation('repl:' + r.crash_key('btcdeb'), dict(wit, run=r.brief()))
                continue
            k = 0
            bad = None
            prev = dump_state(segs[0]['dump'])
            for ch, sg in zip(hist, segs[1:]):
                d = dump_state(sg['dump'])
                if ch == 'S':
                    if k >= last_ok:
                        break
                    k += 1
                else:
                    # accepted iff the sequence number went down or the done flag was cleared
                    if d[6] < prev[6] or (prev[7] and not d[7]):
                        k -= 1
                        if k < 0:
                            bad = (ch, k, ['rewind-accepted-at-start'])
                            break
                prev = d
                if d != bstates[k]:
                    bad = (ch, k, [n for n, a, b in zip(['stack', 'altstack', 'vfsize', 'vf-first-false', 'position', 'opcount', 'op-sequence', 'done-flag', 'script', 'commitment'], d, bstates[k]) if a != b])
                    break
            if bad:
                wit['detail'] = str(bad)
                part.violation('repl-state-differs-from-fresh-session:' + (bad[2][0] if bad[2] else '?'), wit)
                continue
            part.count('repl_histories', 'agree')
            part.nontrivial.add(nt_hash('repl', script, hist))
    finally:
        cleanup_scratch(wd)
    return part.dump()


def main():
    ap = argparse.ArgumentParser()
    ap.add_argument('--tier', default=os.environ.get('VERIF_TIER', 'quick'))
    ap.add_argument('--replay')
    a = ap.parse_args()
    bindir = vbuild.build('asan')
    rep = Reporter(PROP, a.tier)
    if a.replay:
        d = json.load(open(a.replay))
        for w in d['witnesses']:
            if not w or 'history' not in w:
                continue
            c = dict(script=bytes.fromhex(w['script']), stack=[bytes.fromhex(x) for x in w['stack']], flags=w['flags'], sv=w['sv'], succ=bytes.fromhex(w.get('succ', '')),
                     tx=tuple(w['tx']) if w.get('tx') else None, xd=tuple(w['xd']) if w.get('xd') else None, name=w.get('name'))
            part = Partial()
            wd = scratch('c04r')
            cases = [('base', session_cmds('base', c, ['CS'])), ('h', session_cmds('h', c, list(w['history']) + ['CS']))]
            events, crashes, hangs = run_harness_cases(bindir, cases, wd)
            cleanup_scratch(wd)
            print('--- fresh session'); print('\n'.join(events.get('base', [])))
            print('--- history', w['history']); print('\n'.join(events.get('h', [])))
            judge_history(c, w['history'], fold(events['base']), fold(events['h']), part)
            print('verdict:', [k for k, _ in part.violations] or 'agrees')
        return 0
    nfixed = len(fixed_scripts())
    jobs = [(bindir, 'fixed', i, a.tier) for i in range(nfixed)] + [(bindir, 'gen', i, a.tier) for i in range(16 if a.tier == 'quick' else 64)]
    for r in parallel(worker, jobs):
        rep.merge(r)
    for r in parallel(repl_worker, [(bindir, i, 8 if a.tier == 'quick' else 400) for i in range(16)]):
        rep.merge(r)
    rew = rep.tables.get('rewinds', {})
    return rep.finish(
        rule='histories over {step, rewind}: the complete history tree (all 2^d sequences, d=10 quick / 12 thorough) for scripts of <=16 operations, random hovering walks of 10..600 commands for longer ones; '
             'scripts: %d hand-written ones that make each piece of per-step state live (conditional nesting, alt stack, OP_CODESEPARATOR before signature checks in base/v0/tapscript, tapscript signature budget, '
             'op count near 201, multisig op-count jumps, scriptSig+scriptPubKey+P2SH) plus model-steered generated scripts. non-trivial = distinct (script, history) containing at least one accepted rewind' % nfixed,
        assumptions=['relational oracle: the fresh session of the same implementation is the reference (C01 checks that fresh sessions are right)',
                     'a step issued at the end of the script, or one that fails, ends the judged part of a history'],
        extra={'rewinds_issued': rew.get('issued', 0), 'rewinds_accepted': rew.get('accepted', 0)}, min_events=1000, observed=rew.get('issued', 0))


if __name__ == '__main__':
    main_wrapper(main)
