"""C05 — the step-by-step taproot commitment check equals the BIP341 rule.

Events : TaprootCommitmentEnv constructor result (leaf hash), m_k after every Iterate(), number of calls and final
         state; sessions with an attached commitment phase (steps, execdata leaf hash); configure_tx_txin's
         acceptance or refusal of control-block sizes.
Oracle : ref.taproot (TapLeaf, TapBranch fold in lexicographic order, TapTweak, lift_x, tweak-add, parity).
"""
import sys, os, argparse, json
sys.path.insert(0, os.path.dirname(os.path.dirname(os.path.abspath(__file__))))
from vf.common import *
from vf import build as vbuild
from ref.script import *
from ref import secp, taproot, sign as rsign, tx as rtx
from checks.lockstep import parse_events

PROP = 'C05'


def build_valid(rng, m, leaf_version=0xc0, node_mode='random', script=None):
    """a valid (control, program, script) with path length m, built bottom-up with the reference"""
    if script is None:
        script = rng.choice([b'\x51', bytes([OP_1, OP_2, OP_ADD, OP_3, OP_EQUAL]), rsign.rnd_bytes(rng, rng.choice([0, 1, 34, 80, 300]))])
    ik = secp.xonly_from_sec(rsign.rnd_sk(rng))
    k = taproot.tapleaf_hash(script, leaf_version)
    nodes = []
    for j in range(m):
        mode = node_mode if node_mode != 'mixed' else rng.choice(['random', 'below', 'above', 'equal'])
        if mode == 'below':
            e = b'\x00' + rsign.rnd_bytes(rng, 31) if k[0] != 0 else b'\x00' * 32
        elif mode == 'above':
            e = b'\xff' + rsign.rnd_bytes(rng, 31)
        elif mode == 'equal':
            e = k
        elif mode == 'prefix':
            e = k[:31] + bytes([k[31] ^ 1])
        else:
            e = rsign.rnd_bytes(rng, 32)
        nodes.append(e)
        k = taproot.tapbranch(k, e)
    r = taproot.output_key(ik, k)
    if r is None:
        return None
    q, parity = r
    control = bytes([leaf_version | parity]) + ik + b''.join(nodes)
    return control, q, script


def corruptions(rng, control, program, script):
    out = []
    c = bytearray(control)
    c[0] ^= 1
    out.append(('parity-bit', bytes(c), program, script))
    c = bytearray(control)
    c[0] ^= rng.choice([2, 4, 8, 0x10, 0x20, 0x40, 0x80])
    out.append(('leaf-version', bytes(c), program, script))
    c = bytearray(control)
    c[1 + rng.randrange(32)] ^= 1 << rng.randrange(8)
    out.append(('internal-key', bytes(c), program, script))
    m = (len(control) - 33) // 32
    if m:
        c = bytearray(control)
        c[33 + rng.randrange(32 * m)] ^= 1 << rng.randrange(8)
        out.append(('path-node', bytes(c), program, script))
        out.append(('truncate-32', control[:-32], program, script))
    if m >= 2:
        j = rng.randrange(m - 1)
        n1 = control[33 + 32 * j:65 + 32 * j]
        n2 = control[65 + 32 * j:97 + 32 * j]
        if n1 != n2:
            out.append(('swap-nodes', control[:33 + 32 * j] + n2 + n1 + control[97 + 32 * j:], program, script))
    if m < 128:
        out.append(('extend-32', control + rsign.rnd_bytes(rng, 32), program, script))
    p = bytearray(program)
    p[rng.randrange(32)] ^= 1 << rng.randrange(8)
    out.append(('program', control, bytes(p), script))
    if script:
        s = bytearray(script)
        s[rng.randrange(len(s))] ^= 1 << rng.randrange(8)
        out.append(('script-byte', control, program, bytes(s)))
    out.append(('script-extended', control, program, script + b'\x61'))
    # internal key not on the curve / >= p
    out.append(('key-off-curve', control[:1] + (5).to_bytes(32, 'big') + control[33:], program, script))
    out.append(('key-ge-p', control[:1] + (secp.p + 1).to_bytes(32, 'big') + control[33:], program, script))
    return out


def judge_tce(name, control, program, script, lines, part):
    wit = dict(kind=name, control=control.hex(), program=program.hex(), script=script.hex())
    part.evaluations += 1
    t0 = [l.split(' ') for l in lines if l.startswith('TCE0 ')]
    its = [l.split(' ') for l in lines if l.startswith('TCEI ')]
    end = [l.split(' ') for l in lines if l.startswith('TCEEND ')]
    if any(l.startswith('CRASH') for l in lines):
        return
    if not t0 or not end:
        part.inconc('no-tce-events')
        return
    m = (len(control) - 33) // 32
    steps = taproot.merkle_root_steps(control, script)
    want_ok = taproot.verify_commitment(control, program, script)
    if int(t0[0][1]) != m:
        part.violation('path-length-differs', wit)
        return
    if t0[0][2] != steps[0].hex() or t0[0][3] != steps[0].hex():
        wit['want'] = steps[0].hex()
        wit['got'] = t0[0][2]
        part.violation('leaf-hash-differs', wit)
        return
    # the fold: Iterate() i (i < m) must display the value after folding node i
    for j in range(m):
        if j >= len(its):
            part.violation('too-few-iterations', wit)
            return
        if its[j][1] != 'P' or its[j][3] != steps[j + 1].hex():
            wit['at'] = j
            wit['want'] = steps[j + 1].hex()
            wit['got'] = its[j][3]
            part.violation('intermediate-hash-differs', wit)
            return
    fin = end[0][1]
    ncalls = int(end[0][2])
    if ncalls != m + 1:
        wit['calls'] = ncalls
        part.violation('iteration-count-differs', wit)
        return
    if (fin == 'D') != want_ok:
        wit['ref'] = want_ok
        part.violation('commitment-verdict-differs:%s' % ('accepts-invalid' if fin == 'D' else 'rejects-valid'), wit)
        return
    part.count('verdict', '%s:%s' % (name.split('/')[0], 'success' if want_ok else 'failure'))
    part.count('path_len', m)
    part.count('parity', control[0] & 1)
    part.nontrivial.add(nt_hash(control, program, script))


def worker(job):
    bindir, kind, idx, n = job
    rng = sub_rng(PROP, kind, idx)
    part = Partial()
    wd = scratch('c05')
    try:
        triples = []
        if kind == 'valid':
            # every path length 0..128 is produced across the chunks: m = (idx + 16*i) mod 129
            for i in range(n):
                m = (idx + 16 * i) % 129
                lv = 0xc0 if rng.random() < 0.5 else rng.randrange(0, 128) * 2
                v = build_valid(rng, m, lv, rng.choice(['random', 'mixed', 'below', 'above', 'equal', 'prefix']))
                if v is None:
                    continue
                triples.append(('valid/m=%d' % m, v[0], v[1], v[2]))
                for nm, c, p, s in corruptions(rng, *v)[:rng.choice([3, 6, 12])] if i % 2 == 0 else []:
                    triples.append((nm, c, p, s))
        elif kind == 'leafver':
            for lv in range(0, 256, 2):
                if (lv // 2) % 16 != idx:
                    continue
                v = build_valid(rng, rng.choice([0, 1, 3]), lv)
                if v:
                    triples.append(('valid/leafver', v[0], v[1], v[2]))
                    # presenting the odd value flips the parity bit only
                    c = bytearray(v[0]); c[0] ^= 1
                    triples.append(('parity-bit', bytes(c), v[1], v[2]))
        cases = []
        for i, (nm, c, p, s) in enumerate(triples):
            cid = '%s%d.%d' % (kind[0], idx, i)
            cases.append((cid, ['N ' + cid, 'TCERUN %s %s %s' % (c.hex(), p.hex(), hexs(s))]))
        events, crashes, hangs = run_harness_cases(bindir, cases, wd)
        for cr in crashes:
            part.violation('crash:' + cr.key, dict(id=cr.case_id, log=cr.log[-1500:]))
        for (cid, _), (nm, c, p, s) in zip(cases, triples):
            judge_tce(nm, c, p, s, events.get(cid, []), part)
        if triples:
            nm, c, p, s = triples[0]
            part.sample(dict(kind=nm, control_len=len(c), path_len=(len(c) - 33) // 32, control_head=c[:33].hex(), program=p.hex(), script=s.hex()[:80]), limit=1)
        # sessions: the commitment phase attached to a script session (steps, leaf hash in the execution data)
        if True:
            sess = []
            for i, (nm, c, p, s) in enumerate(triples[:40] if kind == 'valid' else triples[:25]):
                if c[0] & 0xfe != 0xc0 or not in_domain(s) or not taproot.control_size_ok(c):
                    continue
                cid = 'q%d.%d' % (idx, i)
                sess.append((cid, nm, c, p, s, ['N ' + cid, 'SV 3', 'FL %d' % (STANDARD & ~F["DISCOURAGE_OP_SUCCESS"]), 'SC ' + hexs(s), 'TCE %s %s %s' % (c.hex(), p.hex(), hexs(s)), 'XD - none 1000', 'SU', 'CS', 'S', 'S', 'CS']))
            events, crashes, hangs = run_harness_cases(bindir, [(x[0], x[5]) for x in sess], wd)
            for cr in crashes:
                part.violation('crash:session:' + cr.key, dict(id=cr.case_id, log=cr.log[-1500:]))
            for cid, nm, c, p, s, _ in sess:
                evs = parse_events(events.get(cid, []))
                if any(k == 'CRASH' for k, e in evs):
                    continue
                steps = [e for k, e in evs if k == 'S']
                u = [e for k, e in evs if k == 'U']
                part.evaluations += 1
                m = (len(c) - 33) // 32
                want_ok = taproot.verify_commitment(c, p, s)
                wit = dict(kind='session/' + nm, control=c.hex(), program=p.hex(), script=s.hex())
                if not u or not u[0].ret:
                    part.inconc('session-setup')
                    continue
                if u[0].done and (m + 1) > 0:
                    # an empty committed script must not make the session "done" before the commitment was checked
                    part.violation('session-done-before-commitment-check', wit)
                    continue
                if len(steps) < m + 1:
                    part.violation('session-commitment-phase-too-short', wit)
                    continue
                ok_phase = all(e.ret for e in steps[:m + 1])
                if ok_phase != want_ok:
                    part.violation('session-commitment-verdict-differs', wit)
                    continue
                if not want_ok:
                    # a failed commitment stays failed: stepping again (step, step, continue) must not get past it
                    first_fail = next(i for i, e in enumerate(steps) if not e.ret)
                    later = steps[first_fail + 1:]
                    part.count('steps_after_failed_commitment', 'n', len(later))
                    if any(e.ret for e in later) or any(e.tcei == -1 for e in later):
                        wit['after_failure'] = [(e.ret, e.tcei, e.done) for e in later]
                        part.violation('session-continues-after-failed-commitment', wit)
                        continue
                if want_ok:
                    leaf = taproot.tapleaf_hash(s)
                    after = steps[m]
                    if after.leaf != leaf.hex():
                        wit['want'] = leaf.hex()
                        wit['got'] = after.leaf
                        part.violation('session-leaf-hash-differs', wit)
                        continue
                    if after.tcei != -1:
                        part.violation('session-commitment-not-finished', wit)
                        continue
                part.count('sessions', 'success' if want_ok else 'failure')
                part.nontrivial.add(nt_hash('s', c, p, s))
    finally:
        cleanup_scratch(wd)
    return part.dump()


def size_worker(job):
    """configure_tx_txin must accept a control block iff its size is 33+32m, m<=128"""
    bindir, idx, sizes = job
    rng = sub_rng(PROP, 'sizes', idx)
    part = Partial()
    wd = scratch('c05s')
    try:
        cases = []
        meta = {}
        for i, sz in enumerate(sizes):
            v = build_valid(rng, 1, script=b'\x51')
            control, q, script = v
            base = control[:33]
            ctl = (base + rsign.rnd_bytes(rng, max(0, sz - 33)))[:sz] if sz >= 33 else base[:sz]
            amount = 5000
            fund = rsign.funding_tx(rng, [(amount, rsign.spk_p2tr(q))])
            tx = rsign.spending_tx(rng, [(rtx.txid(fund), 0)], nout=1, version=2, locktime=0, sequences=[0xffffffff])
            tx.wit = [[b'\x01', script, ctl]]
            cid = 'z%d.%d' % (idx, i)
            meta[cid] = (sz, ctl)
            cases.append((cid, ['N ' + cid, 'TX ' + rtx.ser_tx(tx).hex().encode().hex(), 'TI %s -1' % rtx.ser_tx(fund).hex().encode().hex(), 'CF']))
        events, crashes, hangs = run_harness_cases(bindir, cases, wd)
        for cr in crashes:
            sz = meta.get(cr.case_id, (None,))[0]
            part.violation('crash:control-size:' + cr.key, dict(id=cr.case_id, size=sz, log=cr.log[-1500:]))
        for cid, _ in cases:
            sz, ctl = meta[cid]
            lines = events.get(cid, [])
            if any(l.startswith('CRASH') for l in lines):
                continue
            cf = [l.split(' ') for l in lines if l.startswith('CF ')]
            part.evaluations += 1
            if not cf:
                part.inconc('no-CF-event')
                continue
            ok = cf[0][1] == '1'
            want = taproot.control_size_ok(ctl)
            if ok != want:
                part.violation('control-size-%s' % ('accepted' if ok else 'refused'), dict(size=sz, residue=(sz - 33) % 32 if sz >= 33 else None))
            part.count('control_size', '%d:%s' % (sz, 'accepted' if ok else 'refused'))
            part.nontrivial.add(nt_hash('size', sz))
    finally:
        cleanup_scratch(wd)
    return part.dump()


def spend_worker(job):
    """the commitment phase of real --tx/--txin sessions: the control block and the leaf script are taken from the witness as BIP341
    says (second-to-last / last element after an annex has been removed), whatever else the witness carries"""
    bindir, idx, n = job
    from checks import c03
    rng = sub_rng(PROP, 'spend', idx)
    part = Partial()
    wd = scratch('c05p')
    try:
        scs = []
        sats = ['valid', 'annex', 'annex', 'many-checks-annex', 'control-parity', 'control-node', 'control-internal-key', 'extra-witness-item', 'wrong-script', 'initial-stack-998-annex']
        for i in range(n):
            sat = sats[(idx + i) % len(sats)]
            try:
                sc = c03.build(rng, 'p2tr-script', sat)
            except Exception:
                continue
            if sat == 'annex' and rng.random() < 0.5:
                # annexes of other sizes (the builder's is 3 bytes); the signature does not matter for the commitment phase
                w = list(sc['tx'].wit[sc['idx']])
                w[-1] = b'\x50' + rsign.rnd_bytes(rng, rng.choice([0, 5, 32, 64, 65, 100]))
                sc['tx'].wit[sc['idx']] = w
            sc['id'] = 'p%d.%d' % (idx, i)
            sc['sat'] = sat
            scs.append(sc)
        cases = [(sc['id'], ['N ' + sc['id'], 'TX ' + rtx.ser_tx(sc['tx']).hex().encode().hex(), 'TI %s -1' % rtx.ser_tx(sc['fund']).hex().encode().hex(), 'CF', 'SU', 'CS']) for sc in scs]
        events, crashes, hangs = run_harness_cases(bindir, cases, wd)
        for cr in crashes:
            part.violation('crash:spend:' + cr.key, dict(id=cr.case_id, log=cr.log[-1500:]))
        for sc in scs:
            evs = parse_events(events.get(sc['id'], []))
            if any(k == 'CRASH' for k, e in evs):
                continue
            part.evaluations += 1
            w = list(sc['tx'].wit[sc['idx']])
            if len(w) >= 2 and w[-1][:1] == b'\x50':
                w = w[:-1]
            if len(w) < 2:
                continue
            control, script = w[-1], w[-2]
            q = sc['spk'][2:]
            want = taproot.control_size_ok(control) and taproot.verify_commitment(control, q, script)
            m = (len(control) - 33) // 32
            wit = dict(kind='spend/' + sc['sat'], tx=rtx.ser_tx(sc['tx']).hex(), txin=rtx.ser_tx(sc['fund']).hex(), control=control.hex()[:200], script=script.hex()[:200], program=q.hex())
            cf = [e for k, e in evs if k == 'CF']
            u = [e for k, e in evs if k == 'U']
            st = [e for k, e in evs if k == 'S']
            set_up = bool(cf) and cf[0][1] == '1' and bool(u) and u[0].ret
            passed = set_up and len(st) >= m + 1 and all(e.ret for e in st[:m + 1])
            part.count('spend_commitments', '%s => %s' % (sc['sat'], 'holds' if want else 'does not hold'))
            if want and not passed:
                # (unknown leaf versions / OP_SUCCESS are not generated here)
                part.violation('spend-commitment-rejected-although-it-holds', wit)
            elif not want and passed:
                part.violation('spend-commitment-accepted-although-it-does-not-hold', wit)
            else:
                part.nontrivial.add(nt_hash('spend', control, script, q))
    finally:
        cleanup_scratch(wd)
    return part.dump()


def main():
    ap = argparse.ArgumentParser()
    ap.add_argument('--tier', default=os.environ.get('VERIF_TIER', 'quick'))
    ap.add_argument('--replay')
    a = ap.parse_args()
    bindir = vbuild.build('asan')
    rep = Reporter(PROP, a.tier)
    if a.replay:
        d = json.load(open(a.replay))
        for w in d['witnesses']:
            if not w or 'control' not in w:
                print(w)
                continue
            c, p, s = bytes.fromhex(w['control']), bytes.fromhex(w['program']), bytes.fromhex(w['script'])
            wd = scratch('c05r')
            events, crashes, hangs = run_harness_cases(bindir, [('r', ['N r', 'TCERUN %s %s %s' % (c.hex(), p.hex(), hexs(s))])], wd)
            cleanup_scratch(wd)
            print('\n'.join(events.get('r', [])))
            print('reference steps:', [x.hex() for x in taproot.merkle_root_steps(c, s)], 'verdict', taproot.verify_commitment(c, p, s))
        return 0
    n = 128 if a.tier == "quick" else 2500
    jobs = [(bindir, 'valid', i, n) for i in range(16)] + [(bindir, 'leafver', i, 0) for i in range(16)]
    for r in parallel(worker, jobs):
        rep.merge(r)
    sizes = list(range(0, 70)) + [96, 97, 98, 128, 129, 130] + [33 + 32 * k + d for k in (2, 3, 64, 126, 127, 128, 129, 130) for d in (-1, 0, 1, 16, 31)]
    if a.tier == 'thorough':
        sizes = sorted(set(sizes + list(range(0, 33 + 32 * 130, 7)) + [33 + 32 * k for k in range(0, 131)]))
    chunks = [sizes[i::16] for i in range(16)]
    for r in parallel(size_worker, [(bindir, i, ch) for i, ch in enumerate(chunks)]):
        rep.merge(r)
    for r in parallel(spend_worker, [(bindir, i, 20 if a.tier == 'quick' else 300) for i in range(16)]):
        rep.merge(r)
    pl = rep.tables.get('path_len', {})
    return rep.finish(
        rule='valid commitments built bottom-up by the reference for every path length 0..128 (thorough: each several times; quick: 12 per worker, all residues covered), both parity bits, all 128 even leaf versions, '
             'path nodes forced below / above / equal to / one bit from the running hash; plus every single-field corruption (parity bit, leaf version, internal key bit, path node bit, node swap, truncation/extension by 32, '
             'program bit, script byte/extension, internal key off-curve / >= p); each compared on leaf hash, every intermediate hash, iteration count and verdict; sessions with an attached commitment phase; '
             'control-block sizes 0..4225 through configure_tx_txin. non-trivial = distinct (control, program, script) triple or control size judged',
        assumptions=['ref/taproot.py + ref/secp.py implement BIP341 (anchored on doc/txs/p2ts and BIP340 vector 0)'],
        extra={'distinct_path_lengths': len(pl)}, min_events=200)


if __name__ == '__main__':
    main_wrapper(main)
