"""C06 — tap: the printed address and witnesses verify, whatever leaf is spent.

Events : the real `tap` binary (ASan+UBSan build): 'Resulting Bech32m address' with and without a selected leaf,
         'Resulting transaction' (witness = [sig] args script control) for every leaf index and for key-path mode,
         the 'sighash (little endian)' log line (run under pseudo-terminals), the --sig round trip, and btcdeb's
         verdict on the resulting transaction.
Oracle : shape-agnostic: for every leaf the reference folds the emitted script with the emitted control path,
         tweaks the internal key and must obtain the SAME output key, equal to the bech32m-decoded address of every
         invocation, with the parity in the control byte; reported sighash = reference BIP341/342 digest of the
         emitted transaction; a reference Schnorr signature over it, passed back with --sig, gives a transaction that
         ref.verify accepts and on which btcdeb ends with a true top element.
"""
import sys, os, argparse, json, re
sys.path.insert(0, os.path.dirname(os.path.dirname(os.path.abspath(__file__))))
from vf.common import *
from vf import build as vbuild, proc
from ref.script import *
from checks import lockstep
from ref import secp, sighash, taproot, sign as rsign, tx as rtx, verify, codec

PROP = 'C06'
ADDR = re.compile(r'Resulting Bech32m address: (\S+)')
RTX = re.compile(r'Resulting transaction: ([0-9a-f]+)')
SIGH = re.compile(r'sighash \(little endian\) = ([0-9a-f]{64})')


def run_tap(tap, args, wd, mode='pipe'):
    return proc.run([tap] + args, wd, mode=mode, timeout=60)


def mk_scripts(rng, n, sks):
    """n leaf scripts; leaf 0.. use distinct keys; a few equal scripts when asked"""
    out = []
    texts = {}
    for i in range(n):
        r = rng.random()
        if r < 0.08:
            # the signature check comes after an OP_CODESEPARATOR: the BIP342 digest commits to its position (0 here)
            out.append(bytes([OP_CODESEPARATOR]) + push_only(secp.xonly_from_sec(sks[i % len(sks)] + i)) + bytes([OP_CHECKSIG]))
        elif r < 0.6:
            out.append(push_only(secp.xonly_from_sec(sks[i % len(sks)] + i)) + bytes([OP_CHECKSIG]))
        elif r < 0.7:
            # the signature is not the bottom witness element: <preimage> <sig> - spent with the %SIG% marker among the arguments
            out.append(push_only(secp.xonly_from_sec(sks[i % len(sks)] + i)) + bytes([OP_CHECKSIGVERIFY, OP_SHA256]) + push_only(sha256(bytes([i & 255, i >> 8, 9]))) + bytes([OP_EQUAL]))
        elif r < 0.85:
            out.append(bytes([OP_SHA256]) + push_only(sha256(bytes([i & 255, i >> 8]))) + bytes([OP_EQUAL]))
        elif r < 0.90 or n > 64:
            out.append(push_num(i) + bytes([OP_DROP, OP_1]))
        elif r < 0.95:
            # a leaf written in the tools' script syntax with an inline function: the 20-byte hash is given as a bech32 (v0) address
            h160 = hash160(bytes([i & 255, 7]))
            out.append(bytes([OP_DUP, OP_HASH160]) + push_only(h160) + bytes([OP_EQUALVERIFY, OP_CHECKSIG]))
            texts[i] = '[OP_DUP OP_HASH160 bech32dec(%s) OP_EQUALVERIFY OP_CHECKSIG]' % codec.segwit_addr_encode(rng.choice(['bcrt', 'bc', 'tb']), 0, h160)
        else:
            # a leaf longer than 520 bytes: tapscripts have no size limit (the 520-byte rule is for stack items, not for the script)
            out.append(push_num(i) + bytes([OP_DROP]) + bytes([OP_NOP]) * rng.choice([517, 518, 519, 600, 2000]) + bytes([OP_1]))
    origin = list(range(n))
    if n >= 2 and rng.random() < 0.25:
        a, b = rng.randrange(n), rng.randrange(n)
        out[a] = out[b]      # equal scripts
        origin[a] = b        # (leaf a is to be satisfied like leaf b: same key / preimage)
        texts.pop(a, None)
        if b in texts:
            texts[a] = texts[b]
    mk_scripts.origin = origin
    mk_scripts.texts = texts
    return out


def decode_addr(addr, hrp):
    r = codec.segwit_addr_decode(addr)
    if r is None:
        return None
    if r[0] != hrp or r[1] != 1 or r[3] != 'bech32m' or len(r[2]) != 32:
        return None
    return r[2]


def tree_case(job):
    bindir, n, idx_list, seedtag, roundtrips = job
    rng = sub_rng(PROP, 'tree', n, seedtag)
    part = Partial()
    wd = scratch('c06')
    tap = os.path.join(bindir, 'tap')
    btcdeb = os.path.join(bindir, 'btcdeb')
    try:
        isk = rsign.rnd_sk(rng)
        ikey = secp.xonly_from_sec(isk)
        sks = [rsign.rnd_sk(rng) for _ in range(3)]
        scripts = mk_scripts(rng, n, sks)
        origin = list(mk_scripts.origin)
        texts = dict(mk_scripts.texts)
        hrp = rng.choice(['bcrt'] * 6 + ['tb'] * 3 + ['bc'] * 3 + ['x', 'a' * 30, 'z' * 31, 'q' * 40, 'p' * 83])
        long_hrp = len(hrp) > 30      # hrp + '1' + 59 characters exceed the 90 characters a bech32(m) string may have
        pre = [] if hrp == 'bcrt' and rng.random() < 0.7 else ['--addrprefix=' + hrp]
        base = [ikey.hex(), str(n)] + [texts.get(i, '0x' + s.hex()) for i, s in enumerate(scripts)]
        wit0 = dict(internal_key=ikey.hex(), n=n, scripts=[s.hex() for s in scripts][:8], hrp=hrp)
        # (a) address only
        r = run_tap(tap, pre + base, wd)
        part.evaluations += 1
        if r.abnormal:
            part.violation('address-run:' + r.crash_key('tap'), dict(wit0, run=r.brief()))
            return part.dump()
        m = ADDR.search(r.stdout.decode('latin1'))
        if long_hrp:
            # no valid address exists with such a prefix: the tool must say so rather than print something that is not bech32m
            if m and r.rc == 0:
                part.violation('address-longer-than-bech32-allows-printed', dict(wit0, address=m.group(1), length=len(m.group(1))))
            else:
                part.count('trees', 'prefix-too-long:refused')
                part.nontrivial.add(nt_hash('longhrp', hrp, n))
            return part.dump()
        if not m or r.rc != 0:
            part.violation('no-address-printed', dict(wit0, run=r.brief()))
            return part.dump()
        addr0 = m.group(1)
        q = decode_addr(addr0, hrp)
        if q is None:
            part.violation('address-not-a-bech32m-v1-program', dict(wit0, address=addr0))
            return part.dump()
        part.count('trees', 'n=%d' % n)
        # funding + spending skeleton paying the printed address
        amount = rng.choice([546, 100000, 21 * 10 ** 14])
        # the taproot output sits at a random position of the funding transaction, next to unrelated outputs
        nfo = rng.choice([1, 2, 3])
        fvout = rng.randrange(nfo)
        fouts = [(rng.choice([1000, 77777]), rng.choice([rsign.spk_p2wpkh(secp.pub_from_sec(99)), rsign.spk_p2tr(secp.xonly_from_sec(98)), b'\x51'])) for _ in range(nfo)]
        fouts[fvout] = (amount, rsign.spk_p2tr(q))
        fund = rsign.funding_tx(rng, fouts)
        tx = rsign.spending_tx(rng, [(rtx.txid(fund), fvout)], nout=rng.choice([1, 2]), version=rng.choice([1, 2]), locktime=rng.choice([0, 500000]), sequences=[rng.choice([0xffffffff, 0xfffffffe, 5])])
        tx.wit = None
        txh, finh = rtx.ser_tx(tx).hex(), rtx.ser_tx(fund).hex()
        spent = [(amount, rsign.spk_p2tr(q))]
        outkeys = set()
        dbg_cases, dbg_meta = [], {}
        for idx in idx_list:
            part.evaluations += 1
            wit = dict(wit0, index=idx)
            extra = []
            sc = scripts[idx]
            is_hashlock = sc[0] == OP_SHA256
            if is_hashlock:
                extra = ['0x' + bytes([origin[idx] & 255, origin[idx] >> 8]).hex()]
            r = run_tap(tap, pre + ['--tx=' + txh, '--txin=' + finh] + base + [str(idx)] + extra, wd)
            if r.abnormal:
                part.violation('spend-run:' + r.crash_key('tap'), dict(wit, run=r.brief()))
                continue
            out = r.stdout.decode('latin1')
            m1, m2 = ADDR.search(out), RTX.search(out)
            if r.rc != 0 or not m1 or not m2:
                part.violation('spend-run-no-result', dict(wit, run=r.brief()))
                continue
            if m1.group(1) != addr0:
                part.violation('address-changes-when-a-leaf-is-selected', dict(wit, address_plain=addr0, address_spend=m1.group(1)))
                continue
            try:
                rt = rtx.parse_tx(bytes.fromhex(m2.group(1)))
            except Exception:
                part.violation('resulting-transaction-unparsable', dict(wit, hex=m2.group(1)[:200]))
                continue
            w = rt.wit[0] if rt.wit else []
            if len(w) < 3:
                part.violation('witness-too-short', dict(wit, witness=[x.hex() for x in w]))
                continue
            control, script = w[-1], w[-2]
            if script != sc:
                part.violation('emitted-script-is-not-the-selected-leaf', dict(wit, emitted=script.hex()))
                continue
            if not taproot.control_size_ok(control) or control[1:33] != ikey or (control[0] & 0xfe) != 0xc0:
                part.violation('malformed-control-block', dict(wit, control=control.hex()[:200]))
                continue
            if not taproot.verify_commitment(control, q, script):
                # distinguish: wrong output key vs wrong parity
                root = taproot.merkle_root_steps(control, script)[-1]
                ok = taproot.output_key(ikey, root)
                detail = 'parity' if ok and ok[0] == q else 'output-key'
                part.violation('leaf-does-not-verify-against-address:' + detail, dict(wit, control=control.hex()[:300], address=addr0))
                continue
            root = taproot.merkle_root_steps(control, script)[-1]
            outkeys.add(root)
            part.count('path_len', (len(control) - 33) // 32)
            part.count('proofs', 'verified')
            part.nontrivial.add(nt_hash(n, idx, ikey, tuple(scripts)))
            # unchanged parts of the transaction
            if rt.version != tx.version or rt.vin[0][:2] != tx.vin[0][:2] or rt.vout != tx.vout or rt.locktime != tx.locktime:
                part.violation('resulting-transaction-alters-signed-fields', dict(wit))
                continue
            if w[1:-2] != ([bytes([origin[idx] & 255, origin[idx] >> 8])] if is_hashlock else []):
                part.violation('spend-arguments-not-carried-into-witness', dict(wit, witness=[x.hex()[:40] for x in w]))
                continue
            # "... and are accepted by the debugger's own commitment check": the emitted transaction is loaded into a debugger
            # session (native harness: parse, select, configure, set up) and the commitment phase is stepped
            if n <= 32 or idx in idx_list[:4]:
                dbg_cases.append(('t%d' % idx, ['N t%d' % idx, 'TX ' + m2.group(1).encode().hex(), 'TI %s -1' % finh.encode().hex(), 'CF', 'SU'] + ['S'] * ((len(control) - 33) // 32 + 1)))
                dbg_meta['t%d' % idx] = (dict(wit, script_len=len(sc)), (len(control) - 33) // 32)
        if dbg_cases:
            events, crashes, hangs = run_harness_cases(bindir, dbg_cases, wd)
            for cr in crashes:
                part.violation('debugger-on-emitted-spend:crash:' + cr.key, dict(dbg_meta.get(cr.case_id, ({},))[0], log=cr.log[-1500:]))
            for cid, _ in dbg_cases:
                witd, m = dbg_meta[cid]
                evs = lockstep.parse_events(events.get(cid, []))
                if any(k == 'CRASH' for k, e in evs):
                    continue
                part.evaluations += 1
                cf = [e for k, e in evs if k == 'CF']
                u = [e for k, e in evs if k == 'U']
                st = [e for k, e in evs if k == 'S']
                if not cf or cf[0][1] != '1' or not u or not u[0].ret:
                    out_txt = ''.join(bytes.fromhex(e[1]).decode('latin1') for k, e in evs if k == 'O' and len(e) > 1 and e[1] != '-')
                    part.violation('debugger-refuses-emitted-spend', dict(witd, diagnostics=out_txt[-300:]))
                    continue
                if len(st) < m + 1 or not all(e.ret for e in st[:m + 1]) or st[m].tcei != -1:
                    part.violation('debugger-commitment-check-rejects-emitted-proof', dict(witd, steps=[(e.ret, e.tcei) for e in st]))
                    continue
                part.count('debugger_commitment_checks', 'accepted')
        if len(outkeys) > 1:
            part.violation('leaves-commit-to-different-roots', dict(wit0, roots=[x.hex() for x in outkeys]))
        part.sample(dict(n=n, indices=len(idx_list), address=addr0, hrp=hrp), limit=1)
        # (c)/(d) sighash + round trips on selected leaves and the key path
        for kind in roundtrips:
            part.evaluations += 1
            if kind == 'keypath':
                args = pre + ['--tx=' + txh, '--txin=' + finh] + base
                wit = dict(wit0, mode='keypath')
            else:
                cand = [i for i in range(n) if scripts[i][-1] == OP_CHECKSIG and len(scripts[i]) in (34, 35)]
                cs_first = [i for i in cand if scripts[i][0] == OP_CODESEPARATOR]
                if cs_first and rng.random() < 0.7:
                    cand = cs_first
                if not cand:
                    continue
                marked = [i for i in range(n) if len(scripts[i]) == 69 and scripts[i][33] == OP_CHECKSIGVERIFY and origin[i] == i]
                if marked and rng.random() < 0.6:
                    cand = marked
                if not cand:
                    continue
                idx = rng.choice(cand)
                args = pre + ['--tx=' + txh, '--txin=' + finh] + base + [str(idx)]
                if idx in marked:
                    # tap's marker for the place of the signature among the spend arguments
                    args += ['0x' + bytes([idx & 255, idx >> 8, 9]).hex(), '%SIG%']
                wit = dict(wit0, mode='scriptpath', index=idx, spend_arguments=args[-2:] if idx in marked else [])
            r = run_tap(tap, args, wd, mode='pty')
            if r.abnormal:
                part.violation('sighash-run:' + r.crash_key('tap'), dict(wit, run=r.brief()))
                continue
            text = proc.clean_tty(r.stdout).decode('latin1') + r.stderr.decode('latin1')
            ms, mt = SIGH.search(text), RTX.search(text)
            if not ms or not mt:
                part.violation('no-sighash-reported', dict(wit, run=r.brief()))
                continue
            rt = rtx.parse_tx(bytes.fromhex(mt.group(1)))
            got = bytes.fromhex(ms.group(1))
            if kind == 'keypath':
                want = sighash.sighash_taproot(rt, 0, 0, spent, 0, None)
                # the key path needs the output's secret key: internal key tweaked with the tree root
                roots = list(outkeys)
                if not roots:
                    continue
                signer = rsign.tweak_seckey(isk, ikey, roots[0] if n else None)
            else:
                leaf = taproot.tapleaf_hash(scripts[idx])
                after_cs = scripts[idx][0] == OP_CODESEPARATOR
                want = sighash.sighash_taproot(rt, 0, 0, spent, 1, None, leaf, 0 if after_cs else 0xffffffff)
                if after_cs:
                    kind = 'scriptpath-after-codeseparator'
                if len(scripts[idx]) == 69:
                    kind = 'scriptpath-signature-at-marker'
                signer = sks[origin[idx] % len(sks)] + origin[idx]      # (a leaf that repeats another leaf's script is signed with that leaf's key)
            if got != want:
                part.violation('reported-sighash-differs:' + kind, dict(wit, reported=got.hex(), reference=want.hex(), tx=mt.group(1)[:400]))
                continue
            part.count('sighash', kind + ':equal')
            sig = rsign.sign_schnorr(signer, want, 0)
            if rng.random() < 0.4:
                # a signature whose first byte is 0x50 is still a signature (an annex needs a second witness element)
                sig = secp.schnorr_sign_nonce(signer, want, secp.nonce_with_first_byte(0x50, rng.choice([1, 300, 5000])))
                part.count('signatures', 'first-byte-0x50')
            r2 = run_tap(tap, ['--sig=' + sig.hex()] + args, wd)
            if r2.abnormal or r2.rc != 0:
                part.violation('sig-run:' + (r2.crash_key('tap') if r2.abnormal else 'fails'), dict(wit, run=r2.brief()))
                continue
            m3 = RTX.search(r2.stdout.decode('latin1'))
            if not m3:
                part.violation('sig-run-no-transaction', dict(wit, run=r2.brief()))
                continue
            final = rtx.parse_tx(bytes.fromhex(m3.group(1)))
            ok, err = verify.verify_input(final, 0, rsign.spk_p2tr(q), amount, STANDARD, spent)
            if not ok:
                part.violation('roundtrip-transaction-does-not-validate:' + kind, dict(wit, error=err, tx=m3.group(1)[:600]))
                continue
            r3 = proc.run([btcdeb, '--tx=' + m3.group(1), '--txin=' + finh], wd, mode='ptyin', timeout=60)
            lines = r3.stdout.decode('latin1').split('\n')
            if lines and lines[-1] == '':
                lines.pop()
            if r3.abnormal or r3.rc != 0 or not lines or not cast_bool(bytes.fromhex(lines[-1]) if lines[-1] else b''):
                part.violation('btcdeb-rejects-roundtrip-transaction:' + kind, dict(wit, run=r3.brief()))
                continue
            part.count('roundtrips', kind + ':validated')
            part.nontrivial.add(nt_hash('rt', kind, n, ikey))
    finally:
        cleanup_scratch(wd)
    return part.dump()


def main():
    ap = argparse.ArgumentParser()
    ap.add_argument('--tier', default=os.environ.get('VERIF_TIER', 'quick'))
    ap.add_argument('--replay')
    a = ap.parse_args()
    bindir = vbuild.build('asan')
    rep = Reporter(PROP, a.tier)
    if a.replay:
        d = json.load(open(a.replay))
        for w in d['witnesses']:
            print(json.dumps(w, indent=1)[:3000])
        return 0
    rng = sub_rng(PROP, 'plan')
    jobs = []
    maxn = 24 if a.tier == 'quick' else 64
    for n in range(1, maxn + 1):
        rts = ['keypath', 'scriptpath'] if (n <= 8 or n % 8 == 0) else (['scriptpath'] if n % 3 == 0 else [])
        # split the spending indices of large trees over several jobs (same seed tag => same tree)
        idxs = list(range(n))
        if n > 16:
            half = n // 2
            jobs.append((bindir, n, idxs[:half], 0, rts))
            jobs.append((bindir, n, idxs[half:], 0, []))
        else:
            jobs.append((bindir, n, idxs, 0, rts))
    larger = [rng.choice([65, 100, 127, 128, 129, 255, 256, 257, 511, 512, 1000, 1023, 1024]) for _ in range(12 if a.tier == 'quick' else 200)]
    for j, n in enumerate(larger):
        idxs = sorted(set([0, 1, n - 1, n - 2, n // 2] + [rng.randrange(n) for _ in range(6)]))
        idxs = [i for i in idxs if 0 <= i < n]
        jobs.append((bindir, n, idxs, 100 + j, ['scriptpath'] if j % 4 == 0 else []))
    if a.tier == 'thorough':
        for rep_i in range(1, 7):
            for n in range(1, 33):
                jobs.append((bindir, n, list(range(n)), rep_i, ['keypath', 'scriptpath'] if n % 4 == 1 else []))
    else:
        # two more families of trees (other keys, scripts, prefixes) for the small sizes, every leaf index again
        for rep_i in (1, 2):
            for n in range(1, 17):
                jobs.append((bindir, n, list(range(n)), rep_i, ['keypath', 'scriptpath'] if n % 5 == 1 else []))
    for r in parallel(tree_case, jobs):
        rep.merge(r)
    return rep.finish(
        rule='real tap binary: for every n = 1..%d, one address-only run and one spending run for EVERY leaf index (exhaustive over (n, index)), random larger n up to 1024 with boundary indices, '
             'random x-only internal keys, leaf scripts (key checks, hash locks, constants; equal scripts in a quarter of the trees), address prefixes bcrt/tb/bc; '
             'sighash + --sig round trips (key path and script path) through ptys on a subset, the result validated by the reference and by btcdeb. '
             'non-trivial = distinct (tree, leaf index) whose emitted proof was verified against the decoded address, plus distinct validated round trips' % maxn,
        assumptions=['ref/taproot.py, ref/sighash.py, ref/secp.py, ref/codec.py (bech32m) anchored by ./check selftest', 'single-input transactions (the tool cannot learn other inputs\' spent outputs)'],
        min_events=100)


if __name__ == '__main__':
    main_wrapper(main)
