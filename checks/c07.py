"""C07 — btcc assembles every token sequence into the exact minimal encoding.

Events : btcc <tokens...> stdout hex + exit status (real binary), and Value::parse_args + Value::serialize in the
         native harness for volume.
Oracle : ref.asm (token grammar -> bytes) plus the round trip: decoding the output yields the same operation
         sequence and every push passes the reference CheckMinimalPush.
"""
import sys, os, argparse, json
sys.path.insert(0, os.path.dirname(os.path.dirname(os.path.abspath(__file__))))
from vf.common import *
from vf import build as vbuild, proc
from ref.script import *
from ref import asm

PROP = 'C07'
NAMES = sorted(asm.NAMES)


def rnd_token(rng, depth=0):
    r = rng.random()
    if r < 0.28:
        n = rng.choice(NAMES)
        return rng.choice(['OP_' + n, 'OP_' + n, n]) if not n.isdigit() else 'OP_' + n
    if r < 0.33:
        return 'OP_x%02x' % rng.randrange(256)
    if r < 0.55:
        v = rng.choice([0, 1, 2, 15, 16, 17, -1, -2, 127, 128, 129, 255, 256, 32767, 32768, 65535, 65536, 2 ** 23 - 1, 2 ** 23, 2 ** 31 - 1, 2 ** 31, 2 ** 32, 2 ** 39, 2 ** 47, 2 ** 55 - 1, 2 ** 55, 2 ** 63 - 1])
        v = v + rng.choice([0, 0, 1, -1])
        if rng.random() < 0.4:
            v = -v
        if rng.random() < 0.2:
            v = rng.randrange(-2 ** 63 + 1, 2 ** 63)
        v = max(-2 ** 63 + 1, min(2 ** 63 - 1, v))
        return str(v)
    if r < 0.85:
        ln = rng.choice([0, 1, 1, 2, 2, 3, 4, 5, 6, 20, 32, 33, 74, 75, 76, 77, 80, 254, 255, 256, 257, 300, 519, 520])
        b = bytes(rng.randrange(256) for _ in range(ln))
        if ln and rng.random() < 0.3:
            b = bytes([rng.choice([0, 1, 16, 17, 0x80, 0x81, 0xff])]) + b[1:]
        if ln and rng.random() < 0.2:
            b = b[:-1] + bytes([rng.choice([0x00, 0x80])])
        h = b.hex()
        if rng.random() < 0.5:
            h = h.upper() if rng.random() < 0.3 else h
        pref = rng.random() < 0.6 or ln == 0 or h.isdigit() is True
        # an unprefixed digit-only even-length string is a decimal, that is a different (int) token: keep it, the oracle knows
        return ('0x' + h) if pref else h
    if depth < 8:
        k = rng.choice([0, 1, 1, 2, 3, 5])
        inner = [rnd_token(rng, depth + 1) for _ in range(k)]
        sep = rng.choice([' ', ' ', '  ', '\t', ' \n '])
        body = sep.join(inner)
        if rng.random() < 0.15 and len(inner) >= 2 and not any(t.startswith('[') for t in inner):
            # a comment in the middle: it ends at the end of the line - a line feed, a bare carriage return, or both
            cut = rng.randrange(1, len(inner))
            body = ' '.join(inner[:cut]) + rng.choice([' # one\n', ' # one\r', ' # one\r\n', ' #\n', ' # a # b\r', '#x\r']) + ' '.join(inner[cut:])
        if rng.random() < 0.1 and inner:
            body += ' # comment ] [ here\n'
        if rng.random() < 0.08 and len(inner) >= 2 and not any(t.startswith('[') for t in inner):
            # brackets inside a comment in the middle of a sub-script; a comment glued to the token before it
            cut = rng.randrange(1, len(inner))
            body = ' '.join(inner[:cut]) + rng.choice([' # ] \n', ' # [ \n', ' # ]] [ \r', '#]\n', '# x\n', '#[[\n']) + ' '.join(inner[cut:])
        if rng.random() < 0.06 and inner:
            # a comment glued to a closing bracket
            body = '[' + inner[0] + ']' + rng.choice(['#ab\n', '# OP_3\n', '#\n']) + ' '.join(inner[1:])
        return '[' + body + ']'
    return 'OP_NOP'


def classify_ok(tok):
    try:
        return asm.classify(tok) is not None
    except asm.AsmError:
        return False


def gen_seq(rng):
    n = rng.choice([1, 1, 1, 2, 3, 5, 8, 15, 40])
    toks = []
    while len(toks) < n:
        t = rnd_token(rng)
        if classify_ok(t) and t != '[]' and not t.startswith('-0'):
            toks.append(t)
    return toks


def spread(rng, toks):
    """the same script as an unquoted shell command line would deliver it: every bracketed sub-script spread over several
    arguments (split at its blanks), so that a group may open and close several brackets in one argument"""
    out = []
    glued = []
    for t in toks:
        # a bracketed sub-script ends with its closing bracket: the next token may follow in the same argument without a separator
        if glued and glued[-1].startswith('[') and glued[-1].endswith(']') and '#' not in glued[-1] and bracket_balance(glued[-1]) == 0 and not t.startswith('#') and rng.random() < 0.15:
            glued[-1] += t
        else:
            glued.append(t)
    toks = glued
    for t in toks:
        if t.startswith('[') and ' ' in t and '#' not in t and '\n' not in t and '\t' not in t and '  ' not in t and rng.random() < 0.8:
            out += t.split(' ')
        else:
            out.append(t)
    return out


def bracket_balance(text):
    """opening minus closing brackets, not counting the ones inside comments (a comment runs to the end of its line)"""
    depth = 0
    comment = False
    for ch in text:
        if ch in '\n\r':
            comment = False
        elif ch == '#':
            comment = True
        if not comment:
            depth += (ch == '[') - (ch == ']')
    return depth


def join_args(toks):
    """Value::parse_args' documented rule: a bracketed sub-script may be spread over several arguments - they are collected,
    joined by single blanks, until the brackets balance; an argument (group) that starts with a bracket is then read like the
    inside of a bracket is: it may hold several tokens, each sub-script ending with its own closing bracket"""
    out = []
    for j in _join_args(toks):
        if j.startswith('['):
            try:
                out += asm.split_body(j)
                continue
            except asm.AsmError:
                pass
        out.append(j)
    return out


def _join_args(toks):
    joined, acc = [], None
    for t in toks:
        if acc is not None:
            acc += ' ' + t
            if bracket_balance(acc) <= 0:
                joined.append(acc)
                acc = None
        elif t.startswith('[') and bracket_balance(t) > 0:
            acc = t
        else:
            joined.append(t)
    if acc is not None:
        joined.append(acc)
    return joined


def judge(toks, got_hex, exc, part, src):
    part.evaluations += 1
    wit = dict(tokens=[t[:120] for t in toks], via=src)
    try:
        want = asm.compile_tokens(toks)
    except asm.AsmError as e:
        part.inconc('oracle:' + str(e)[:40])
        return
    if exc:
        wit['exception'] = exc
        part.violation('exception', wit)
        return
    try:
        got = bytes.fromhex(got_hex)
    except ValueError:
        wit['output'] = got_hex[:200]
        part.violation('output-not-hex', wit)
        return
    flat = ' '.join(toks)
    has_ff = any(x in flat.lower() for x in ('op_xff',)) or any(t.lower() == 'xff' for t in toks)
    if got != want and has_ff:
        # OP_xff collides with the OP_INVALIDOPCODE sentinel inside GetOpCode (recorded finding)
        part.violation('OP_xff-escape-not-assembled', wit)
        return
    if got != want:
        wit['want'] = want.hex()[:400]
        wit['got'] = got.hex()[:400]
        # name the first differing token kind for the key
        kinds = set()
        for t in toks:
            c = asm.classify(t)
            pre = asm.emit(c)
            kinds.add(c[0])
        one = asm.classify(toks[0])[0] if len(toks) == 1 else 'sequence'
        if len(toks) == 1 and one == 'data':
            ln = len(asm.classify(toks[0])[1])
            one = 'data<5' if ln < 5 else 'data'
        part.violation('wrong-bytes:%s' % one, wit)
        return
    # round trip + minimal pushes (a bare push opcode such as OP_PUSHDATA1 / OP_x4c swallows what follows: no round trip by nature)
    raw_push_op = any((asm.classify(t)[0] == 'op' and 1 <= asm.classify(t)[1] <= 0x4e) for t in toks)
    seq = asm.decode_ops(got)
    if not raw_push_op and (seq is None or seq != asm.op_sequence(toks)):
        # brackets are pushes of bodies: op_sequence handles them as ('push', body)
        wit['decoded'] = str(seq)[:300]
        part.violation('roundtrip-differs', wit)
        return
    for o, d in ([] if raw_push_op else decode_all(got)):
        if o <= OP_PUSHDATA4 and not check_minimal_push(d, o):
            part.violation('non-minimal-push', wit)
            return
    for t in toks:
        c = asm.classify(t)
        part.count('token_kinds', c[0] if c[0] != 'data' else ('data:%s' % ('empty' if not c[1] else '1' if len(c[1]) == 1 else '2-4' if len(c[1]) < 5 else '5-75' if len(c[1]) <= 75 else '76-255' if len(c[1]) <= 255 else '256-520')))
    part.nontrivial.add(nt_hash(tuple(toks)))
    if len(toks) > 2:
        part.sample(dict(tokens=[t[:60] for t in toks[:8]], bytes=got.hex()[:120]), limit=2)


def harness_worker(job):
    bindir, kind, idx, n = job
    rng = sub_rng(PROP, kind, idx)
    part = Partial()
    wd = scratch('c07')
    try:
        seqs = []
        if kind == 'names':
            for nm in NAMES:
                seqs.append(['OP_' + nm])
                if not nm.isdigit():
                    seqs.append([nm])
            for b in range(256):
                seqs.append(['OP_x%02x' % b])
                seqs.append(['OP_x%02X' % b])
        elif kind == 'hex1':
            for b in range(256):
                seqs.append(['0x%02x' % b])
                if not ('%02x' % b).isdigit():
                    seqs.append(['%02x' % b])
                seqs.append(['[0x%02x]' % b])
        elif kind == 'hex2':
            for v in range(idx * 4096, (idx + 1) * 4096):
                seqs.append(['0x%04x' % v])
        elif kind == 'ints':
            for k in range(0, 64):
                for d in (-2, -1, 0, 1, 2):
                    for sgn in (1, -1):
                        v = sgn * ((1 << k) + d)
                        if -2 ** 63 < v < 2 ** 63:
                            seqs.append([str(v)])
            for v in range(-20, 21):
                seqs.append([str(v)])
            for k in (7, 8, 15, 16, 23, 24, 31, 32, 39, 40, 47, 48, 55, 56, 63):
                for d in (-1, 0):
                    v = (1 << k) + d
                    if v < 2 ** 63:
                        seqs.append([str(v)]); seqs.append([str(-v)])
        elif kind == 'lengths':
            for ln in list(range(0, 90)) + [254, 255, 256, 257, 519, 520]:
                b = bytes((ln * 7 + i) & 0xff or 1 for i in range(ln))
                seqs.append(['0x' + b.hex()])
                seqs.append(['[0x' + b.hex() + ']'] if ln <= 515 else ['0x' + b.hex()])
            for depth in range(0, 9):
                t = 'OP_1'
                for _ in range(depth):
                    t = '[' + t + ' 2]'
                seqs.append([t])
            seqs += [['[', 'OP_1', 'OP_2', ']'], ['[OP_1', 'OP_2]'], ['[OP_1', '0x1234', 'OP_ADD]', 'OP_DUP'], ['1234'], ['515293'], ['0x515293'], ['0011'], ['0x'], ['[0x]'], ['[ ]'.replace(' ', '')] if False else ['[OP_0]']]
        else:
            for i in range(n):
                sq = gen_seq(rng)
                seqs.append(sq)
                sp = spread(rng, sq)
                if sp != sq:
                    seqs.append(sp)
            seqs += [['[OP_1][OP_2]'], ['[ab][cd]'], ['[OP_1', 'OP_2][OP_3]'], ['[OP_1]5'], ['[OP_1][OP_2][OP_3]', 'OP_4'], ['[[OP_1][OP_2]]'], ['[OP_1]OP_DUP'], ['[OP_1] [OP_2]'],
                     ['[[OP_1', 'OP_2]', 'OP_3]'], ['[[[OP_1', 'OP_2]', 'OP_3]', 'OP_4]', 'OP_5'], ['[OP_1', '[OP_2', 'OP_3]]'], ['[[OP_1]', 'OP_2]'], ['[OP_1', '[OP_2]', 'OP_3]']]
        cmds = ['N c']
        for toks in seqs:
            cmds.append('VA ' + ' '.join(t.encode().hex() or '-' for t in toks))
        events, crashes, hangs = run_harness_cases(bindir, [('c', cmds)], wd)
        for cr in crashes:
            part.violation('crash:' + cr.key, dict(log=cr.log[-1500:]))
        va = [l.split(' ') for l in events.get('c', []) if l.startswith('VA ')]
        if len(va) != len(seqs) and not crashes:
            part.inconc('event-count-mismatch')
        for toks, e in zip(seqs, va):
            # multi-argv bracket groups are re-joined by parse_args with single spaces
            joined = join_args(toks)
            exc = bytes.fromhex(e[2][1:]).decode('latin1') if e[2] != '-' else ''
            judge(joined, '' if e[1] == '-' else e[1], exc, part, 'harness')
    finally:
        cleanup_scratch(wd)
    return part.dump()


def binary_worker(job):
    bindir, idx, n = job
    rng = sub_rng(PROP, 'bin', idx)
    part = Partial()
    wd = scratch('c07b')
    btcc = os.path.join(bindir, 'btcc')
    try:
        for i in range(n):
            toks = gen_seq(rng)
            if sum(len(t) for t in toks) > 60000 or any('\x00' in t for t in toks):
                continue
            if i % 3 == 0:
                toks = spread(rng, toks)
            r = proc.run([btcc] + toks, wd, mode='pipe', timeout=30)
            if r.abnormal:
                part.evaluations += 1
                part.violation('btcc:' + r.crash_key('btcc'), dict(tokens=[t[:100] for t in toks], run=r.brief()))
                continue
            out = r.stdout.decode('latin1').strip()
            if r.rc != 0:
                part.evaluations += 1
                part.violation('btcc-exit-status-%s' % r.rc, dict(tokens=[t[:100] for t in toks], run=r.brief()))
                continue
            judge(join_args(toks), out, '', part, 'btcc')
            part.count('binary_runs', 'n')
    finally:
        cleanup_scratch(wd)
    return part.dump()


def main():
    ap = argparse.ArgumentParser()
    ap.add_argument('--tier', default=os.environ.get('VERIF_TIER', 'quick'))
    ap.add_argument('--replay')
    a = ap.parse_args()
    bindir = vbuild.build('asan')
    rep = Reporter(PROP, a.tier)
    if a.replay:
        d = json.load(open(a.replay))
        for w in d['witnesses']:
            print(json.dumps(w, indent=1)[:2000])
            if w and w.get('tokens'):
                r = proc.run([os.path.join(bindir, 'btcc')] + w['tokens'], scratch('c07r'), mode='pipe')
                print('btcc ->', r.stdout, r.rc)
                try:
                    print('ref  ->', asm.compile_tokens(w['tokens']).hex())
                except Exception as e:
                    print('ref error', e)
        return 0
    thorough = a.tier == 'thorough'
    jobs = [(bindir, 'names', 0, 0), (bindir, 'hex1', 0, 0), (bindir, 'ints', 0, 0), (bindir, 'lengths', 0, 0)]
    jobs += [(bindir, 'hex2', i, 0) for i in range(16)]
    jobs += [(bindir, 'rand', i, 4000 if not thorough else 45000) for i in range(32)]
    for r in parallel(harness_worker, jobs):
        rep.merge(r)
    for r in parallel(binary_worker, [(bindir, i, 90 if not thorough else 1200) for i in range(16)]):
        rep.merge(r)
    return rep.finish(
        rule='every opcode name in both spellings and all 256 OP_xNN escapes; decimals at every 2^k +-2 (k<64), -20..20, encoding-size boundaries; ALL 1-byte and ALL 2-byte hex literals (65,792), '
             'hex literals of every length 0..89 and 254..257, 519, 520; nesting depth 0..8; multi-argv bracket groups; random sequences of 1..40 tokens with whitespace/comment variants; through Value::parse_args+serialize '
             'in the harness and through the real btcc binary on a sample. non-trivial = distinct token sequence whose output equalled the reference bytes, round-tripped and had only minimal pushes',
        assumptions=['ref/asm.py states the grammar: digit-only tokens are decimals; a hex literal is pushed in the minimal form that leaves exactly its bytes on the stack; a bracket is a push of the compiled body',
                     'inline function forms name(arg) belong to C14'],
        min_events=10000)


if __name__ == '__main__':
    main_wrapper(main)
