"""C08 — non-interactive btcdeb prints the final stack and never exits abnormally.

Events : stdout, stderr, exit status / terminating signal of the real btcdeb binary run with each of the three
         non-terminal combinations of stdin/stdout (pipe+pipe, pty-in+pipe-out, pipe-in+pty-out), script on stdin or
         argv, with --quiet / --debug=<subset> / DEBUG_* / --verbose.
Oracle : ref.script.Session run to completion gives outcome and final stack: on success stdout is exactly the
         lowercase hex items bottom->top, one per line, exit 0; on failure a script error on stderr, exit 1; never a
         signal; identical stdout/exit across all quiet/debug settings (relational); --verbose refused; equal to what
         interactive stepping reaches (scripted REPL `step` x n + `stack`).
"""
import sys, os, argparse, json, re
sys.path.insert(0, os.path.dirname(os.path.dirname(os.path.abspath(__file__))))
from vf.common import *
from vf import build as vbuild, proc
from ref.script import *
from ref import secp, sighash, sign as rsign, tx as rtx
from ref.verify import TxChecker
from checks import gen, c02

PROP = 'C08'
DBG = ['sighash', 'signing', 'segwit', 'taproot']


def ref_run(script, stack, flags, sv, checker=None, allow_disabled=False):
    """-> ('refused',) | ('ok', final stack) | ('fail', code)"""
    if not in_domain(script):
        return ('refused',)
    if sv in (BASE, WITNESS_V0) and len(script) > MAX_SCRIPT_SIZE:
        return ('fail', 'SCRIPT_SIZE')
    s = Session(script, stack, flags, sv, checker=checker, allow_disabled=allow_disabled)
    while not s.done:
        r = s.step()
        if r[0] == 'fail':
            return ('fail', r[1])
    return ('ok', s.stack)


def opt_sets(rng):
    """several option/environment settings that must not change the result"""
    sets = [([], {})]
    k = rng.sample(DBG, rng.randint(1, 4))
    sets.append((['--quiet'], {}))
    sets.append((['--debug=' + ','.join(k)], {}))
    sets.append(([], {'DEBUG_' + x.upper(): rng.choice(['1', '0', 'yes']) for x in rng.sample(DBG, rng.randint(1, 4))}))
    sets.append((['-q', '-D' + rng.choice(DBG)], {'DEBUG_SIGHASH': '1'}))
    return sets


def make_case(rng, i):
    """plain-script cases (C01 generators incl. exception-raising ones) and signature contexts (C02 generator)"""
    r = rng.random()
    c = dict(flags=STANDARD, sv=BASE, tx=None)
    if r < 0.12:
        cc = c02.gen_case(rng, 'x')
        tries = 0
        while cc['sv'] not in (BASE, WITNESS_V0) and tries < 20:
            cc = c02.gen_case(rng, 'x')
            tries += 1
        if cc['sv'] in (BASE, WITNESS_V0):
            ctx = cc['ctx']
            c.update(script=cc['script'], stack=cc['stack'], tx=ctx, sv=cc['sv'], kind='signature')
            if cc['sv'] == WITNESS_V0:
                # the binary only enters segwit-v0 mode when the spending tx carries a witness
                ctx['tx'].wit = [[b'\x01'] if j == ctx['idx'] else [] for j in range(len(ctx['tx'].vin))]
            return c
    st = gen.rnd_stack(rng)[:6]
    if r < 0.55:
        s = gen.gen_deep(rng, BASE, STANDARD, rng.choice([2, 5, 10, 20, 40]), st, sigops=False)
        kind = 'deep'
    elif r < 0.7:
        s = gen.gen_random_ops(rng)
        kind = 'rand'
    elif r < 0.8:
        s = gen.gen_bytes(rng)
        kind = 'bytes'
    else:
        # failures raised as C++ exceptions and empty-stack pops
        s = rng.choice([push_only(b'\x00\x00\x00\x00\x01') + bytes([OP_1ADD]), push_only(b'\x01\x00') + bytes([OP_NEGATE]), bytes([OP_1, OP_2, OP_3, OP_4, OP_5]) + push_only(b'\xff' * 5) + bytes([OP_PICK]),
                        bytes([OP_DROP]), bytes([OP_1, OP_IF]), bytes([OP_0, OP_VERIFY]), bytes([OP_RETURN]), bytes([OP_1, OP_0, OP_WITHIN]), push_only(b'\x80') + bytes([OP_ABS]),
                        bytes([OP_DEPTH, OP_1SUB, OP_PICK]), b'', bytes([OP_1]), bytes([OP_0]), push_only(b'\xff' * 6) + bytes([OP_CHECKLOCKTIMEVERIFY])])
        kind = 'exception-or-edge'
    s = gen.strip_sigops(s)
    c.update(script=s[:900], stack=st, kind=kind)
    return c


def argv_for(c, mode, opts):
    args = list(opts)
    if c['tx']:
        ctx = c['tx']
        amounts = ','.join(c02.amount_str(ctx['amount'] if i == ctx['idx'] else 0) for i in range(len(ctx['tx'].vin)))
        args.append('--tx=' + amounts + ':' + rtx.ser_tx(ctx['tx']).hex())
        args.append('--txin=' + rtx.ser_tx(ctx['fund']).hex())
    script_tok = '0x' + c['script'].hex()
    stack_toks = ['0x' + x.hex() for x in c['stack']]
    if mode == 'ptyin':
        return args + [script_tok] + stack_toks, b''
    return args + stack_toks, (script_tok + '\n').encode()


def expected_stdout(stack):
    return ''.join(x.hex() + '\n' for x in stack)


def worker(job):
    bindir, idx, n = job
    rng = sub_rng(PROP, idx)
    part = Partial()
    wd = scratch('c08')
    btcdeb = os.path.join(bindir, 'btcdeb')
    try:
        for i in range(n):
            c = make_case(rng, i)
            script = c['script']
            if len(script) > 480 and not c['tx']:
                modes = ['ptyin']            # the stdin reader takes one line of at most 1023 characters
            elif c['tx']:
                modes = ['ptyin'] if len(script) > 480 else ['ptyin', 'pipe', 'ptyout']
            else:
                modes = ['pipe', 'ptyin', 'ptyout']
            if not script:
                modes = ['ptyin']            # an empty script cannot be passed on stdin (separate C15 case)
            checker = None
            if c['tx']:
                ctx = c['tx']
                checker = TxChecker(ctx['tx'], ctx['idx'], ctx['amount'], None)
            want = ref_run(script, c['stack'], c['flags'], c['sv'], checker)
            wit0 = dict(script=script.hex(), stack=[x.hex() for x in c['stack']], kind=c['kind'], reference=want[0] if want[0] != 'ok' else 'ok', tx=bool(c['tx']))
            runs = []
            sets = opt_sets(rng)
            chosen = [sets[0]] + rng.sample(sets[1:], 2)
            for (opts, env) in chosen:
                mode = rng.choice(modes)
                argv, stdin = argv_for(c, mode, opts)
                if sum(len(a) for a in argv) > 100000:
                    continue
                r = proc.run([btcdeb] + argv, wd, stdin=stdin, mode=mode, timeout=30, extra_env=env)
                runs.append((mode, opts, env, r))
                part.evaluations += 1
                part.count('modes', mode)
                part.count('options', ' '.join(opts) + (' env:' + ','.join(sorted(env)) if env else '') or '(none)')
                wit = dict(wit0, mode=mode, options=opts, env=env, run=r.brief())
                if r.abnormal:
                    part.violation('abnormal-exit:' + r.crash_key('btcdeb'), wit)
                    continue
                out = r.stdout.decode('latin1')
                if mode == 'ptyout':
                    out = proc.clean_tty(r.stdout).decode('latin1')
                err = r.stderr.decode('latin1')
                if want[0] == 'refused':
                    part.count('outcome', 'refused')
                    if r.rc != 1 or 'invalid script' not in err:
                        part.violation('out-of-domain-script-not-refused', wit)
                elif want[0] == 'ok':
                    part.count('outcome', 'success')
                    if r.rc != 0:
                        part.violation('fails-where-script-succeeds', wit)
                    elif out != expected_stdout(want[1]):
                        wit['want_stdout'] = expected_stdout(want[1])[:400]
                        part.violation('stdout-is-not-the-final-stack', wit)
                    else:
                        part.nontrivial.add(nt_hash(script, tuple(c['stack']), mode, tuple(opts), tuple(sorted(env.items()))))
                else:
                    part.count('outcome', 'fail:' + want[1])
                    if r.rc != 1:
                        part.violation('exit-status-%s-for-failing-script' % r.rc, wit)
                    elif 'error' not in err.lower():
                        part.violation('no-script-error-on-stderr', wit)
                    else:
                        part.nontrivial.add(nt_hash(script, tuple(c['stack']), mode, tuple(opts), tuple(sorted(env.items()))))
            # relational: the result must not depend on the quiet/debug options
            ok_runs = [(m, o, e, r) for (m, o, e, r) in runs if not r.abnormal]
            if len(ok_runs) >= 2 and want[0] == 'ok':
                outs = set((proc.clean_tty(r.stdout) if m == 'ptyout' else r.stdout, r.rc) for (m, o, e, r) in ok_runs)
                if len(outs) > 1:
                    part.violation('result-depends-on-quiet-or-debug-options', dict(wit0, runs=[dict(mode=m, options=o, env=e, stdout=r.stdout.decode('latin1')[:300], rc=r.rc) for (m, o, e, r) in ok_runs]))
            if i % 10 == 0:
                # --verbose must be refused in this mode
                argv, stdin = argv_for(c, 'ptyin', ['--verbose'])
                r = proc.run([btcdeb] + argv, wd, stdin=stdin, mode='ptyin', timeout=30)
                part.evaluations += 1
                if r.abnormal:
                    part.violation('abnormal-exit:' + r.crash_key('btcdeb'), dict(wit0, options=['--verbose'], run=r.brief()))
                elif r.rc == 0 or r.stdout.strip():
                    part.violation('verbose-not-refused', dict(wit0, run=r.brief()))
                else:
                    part.count('options', '--verbose:refused')
            if i % 9 == 0:
                # the stdin reader takes one line of up to 1023 characters: scripts of exactly 1021..1023 characters of text
                L = rng.choice([1021, 1022, 1023, 1023])
                nn = rng.choice([100, 120, 140])
                body = 'OP_2 OP_3 OP_ADD ' + 'OP_NOP ' * nn + 'OP_1'
                text = '[' + body + ' ' * (L - 2 - len(body)) + ']'
                wantl = expected_stdout([b'\x05', b'\x01'])
                for tail in (b'\n', b''):
                    r = proc.run([btcdeb], wd, stdin=text.encode() + tail, mode='pipe', timeout=30)
                    part.evaluations += 1
                    part.count('modes', 'pipe/long-line-%d%s' % (L, '' if tail else '-no-newline'))
                    if r.abnormal:
                        part.violation('abnormal-exit:' + r.crash_key('btcdeb'), dict(kind='long-stdin-line', length=L, run=r.brief()))
                    elif r.rc != 0 or r.stdout.decode('latin1') != wantl:
                        part.violation('long-stdin-line-differs-from-argv-result', dict(kind='long-stdin-line', length=L, newline=bool(tail), want_stdout=wantl, run=r.brief()))
                    else:
                        part.nontrivial.add(nt_hash('long', L, tail))
            if i % 9 == 4:
                # longer lines on stdin: a script may be up to 10,000 bytes, whatever way it is handed over
                kind_l = rng.choice(['hex', 'asm'])
                if kind_l == 'hex':
                    nb = rng.choice([511, 512, 513, 600, 2000, 5000])
                    sc_l = bytes([OP_1]) * (nb - 1) + bytes([OP_7]) if nb <= 1000 else (bytes([OP_1, OP_DROP]) * ((nb - 1) // 2) + bytes([OP_7]))[:10000]
                    text = '0x' + sc_l.hex()
                else:
                    nn = rng.choice([79, 100, 150, 300, 800])
                    sc_l = bytes([OP_1, OP_DROP]) * nn + bytes([OP_7])
                    text = '[' + 'OP_1 OP_DROP ' * nn + 'OP_7]'
                wl = ref_run(sc_l, [], STANDARD, BASE)
                for tail in (b'\n', b''):
                    r = proc.run([btcdeb], wd, stdin=text.encode() + tail, mode='pipe', timeout=60)
                    part.evaluations += 1
                    part.count('modes', 'pipe/line-of-%d-characters' % len(text))
                    wl_w = dict(kind='long-stdin-line', length=len(text), head=text[:60], reference=wl[0], run=r.brief())
                    if r.abnormal:
                        part.violation('abnormal-exit:' + r.crash_key('btcdeb'), wl_w)
                    elif wl[0] == 'ok' and (r.rc != 0 or r.stdout.decode('latin1') != expected_stdout(wl[1])):
                        part.violation('long-stdin-line-differs-from-argv-result', wl_w)
                    elif wl[0] != 'ok' and r.rc != 1:
                        part.violation('long-stdin-line-differs-from-argv-result', wl_w)
                    else:
                        part.nontrivial.add(nt_hash('long', text, tail))
            if i % 11 == 5:
                # inline functions inside the script: whatever they print while being evaluated, stdout is the final stack only
                h160 = bytes(rng.randrange(256) for _ in range(20))
                from ref import codec
                addr = codec.segwit_addr_encode(rng.choice(['bc', 'tb', 'bcrt']), 0, h160)
                b58 = codec.b58check_encode(b'\x00' + h160)
                text, wst = rng.choice([('[bech32dec(%s) OP_SIZE]' % addr, [h160, bytes([20])]),
                                        ('[base58chkdec(%s) OP_SIZE]' % b58, [b'\x00' + h160, bytes([21])]),
                                        ('[sha256(0x%s) OP_SIZE]' % h160.hex(), [sha256(h160), bytes([32])]),
                                        ('[addr_to_spk(%s) OP_SIZE]' % b58, [bytes([OP_DUP, OP_HASH160, 20]) + h160 + bytes([OP_EQUALVERIFY, OP_CHECKSIG]), bytes([25])])])
                mode_f = rng.choice(['pipe', 'ptyin'])
                r = proc.run([btcdeb] + ([text] if mode_f == 'ptyin' else []), wd, stdin=(text + '\n').encode() if mode_f == 'pipe' else b'', mode=mode_f, timeout=30)
                part.evaluations += 1
                part.count('modes', mode_f + '/inline-function-in-script')
                wf = dict(kind='inline-function-in-script', script=text, mode=mode_f, want_stdout=expected_stdout(wst), run=r.brief())
                if r.abnormal:
                    part.violation('abnormal-exit:' + r.crash_key('btcdeb'), wf)
                elif r.rc != 0 or r.stdout.decode('latin1') != expected_stdout(wst):
                    part.violation('stdout-is-not-the-final-stack', wf)
                else:
                    part.nontrivial.add(nt_hash('inl', text, mode_f))
            if i % 13 == 6:
                # stack items written as decimal numbers, negative ones included: the run either uses them or fails - it never
                # prints the stack of some other command line with status 0
                nums = [rng.choice([5, 17, -3, -1, 0, 1000, -128, 2147483647, -2147483647]) for _ in range(rng.choice([1, 2, 3]))]
                wst = [num_encode(v) for v in nums] + [num_encode(len(nums))]
                sep = rng.choice([[], ['--']])
                for mode_n in ('ptyin', 'pipe'):
                    if mode_n == 'ptyin':
                        r = proc.run([btcdeb] + sep + ['[OP_DEPTH]'] + [str(v) for v in nums], wd, mode='ptyin', timeout=30)
                    else:
                        r = proc.run([btcdeb] + sep + [str(v) for v in nums], wd, stdin=b'[OP_DEPTH]\n', mode='pipe', timeout=30)
                    part.evaluations += 1
                    part.count('modes', mode_n + '/decimal-stack-arguments')
                    wn = dict(kind='decimal-stack-arguments', numbers=nums, separator=bool(sep), mode=mode_n, want_stdout=expected_stdout(wst), run=r.brief())
                    if r.abnormal:
                        part.violation('abnormal-exit:' + r.crash_key('btcdeb'), wn)
                    elif r.rc == 0 and r.stdout.decode('latin1') != expected_stdout(wst):
                        part.violation('status-0-with-the-stack-of-another-command-line', wn)
                    elif r.rc != 0 and (sep or all(v >= 0 for v in nums)):
                        part.violation('fails-where-script-succeeds', wn)
                    else:
                        part.nontrivial.add(nt_hash('nums', tuple(nums), mode_n, bool(sep)))
            if i % 7 == 0 and want[0] == 'ok' and not c['tx'] and script and len(script) < 300:
                # interactive stepping must reach the same final stack
                nsteps = len(decode_all(script)) + 2
                r, segs = proc.repl_session(btcdeb, ['0x' + script.hex()] + ['0x' + x.hex() for x in c['stack']], ['step'] * nsteps, wd, timeout=60)
                part.evaluations += 1
                if r.abnormal:
                    part.violation('repl:' + r.crash_key('btcdeb'), dict(wit0, run=r.brief()))
                elif segs:
                    fin = [bytes.fromhex(x) for x in segs[-1]['dump']['stack']]
                    if fin != want[1] or not segs[-1]['dump']['done']:
                        part.violation('interactive-stepping-reaches-a-different-result', dict(wit0, interactive=[x.hex() for x in fin]))
                    else:
                        part.count('interactive_equal', 'n')
            part.sample(dict(wit0, stdout=expected_stdout(want[1])[:80] if want[0] == 'ok' else None), limit=2)
    finally:
        cleanup_scratch(wd)
    return part.dump()


MEM_CEILING = 3 << 30


def memory_cases():
    """valid scripts whose run is long AND whose stack is large (both within the consensus limits): thousands of operations, most of
    them not even executed, over ~1000 items of 520 bytes.  The stack itself is half a megabyte; a run needs a small multiple of that."""
    items = [bytes([i & 255 or 1]) * 520 for i in range(997)]
    out = []
    out.append(('unexecuted-pushes-over-997x520', bytes([OP_0, OP_IF]) + bytes([OP_1]) * 9000 + bytes([OP_ENDIF, OP_1]), items))
    out.append(('executed-push-drop-pairs-over-997x520', bytes([OP_1, OP_DROP]) * 150 + bytes([OP_0, OP_IF]) + bytes([OP_2]) * 9000 + bytes([OP_ENDIF]), items))
    out.append(('alt-stack-holds-the-items', bytes([OP_TOALTSTACK]) * 190 + bytes([OP_0, OP_IF]) + bytes([OP_3]) * 9500 + bytes([OP_ENDIF]), items))
    out.append(('operation-limit-hit-after-a-long-run', bytes([OP_0, OP_IF]) + bytes([OP_4]) * 9000 + bytes([OP_ENDIF]) + bytes([OP_NOP]) * 200, items))
    out.append(('small-stack-control', bytes([OP_0, OP_IF]) + bytes([OP_1]) * 9000 + bytes([OP_ENDIF, OP_1]), [b'\x01']))
    return out


def memory_worker(job):
    """bounded resources: the same non-interactive runs on the plain build under an address-space ceiling of 3 GiB - several thousand
    times the size of the data involved.  Running out of memory ends the process abnormally (std::bad_alloc), which the property excludes."""
    plain, idx = job
    from vf import proc
    part = Partial()
    wd = scratch('c08m')
    btcdeb = os.path.join(plain, 'btcdeb')
    try:
        for j, (name, script, stack) in enumerate(memory_cases()):
            if j % 5 != idx:
                continue
            want = ref_run(script, stack, STANDARD, BASE)
            args = ['0x' + script.hex()] + ['0x' + x.hex() for x in stack]
            r = proc.run([btcdeb] + args, wd, mode='ptyin', timeout=300, rlimit_as=MEM_CEILING)
            part.evaluations += 1
            part.count('bounded_memory', name)
            wit = dict(case=name, script=script.hex()[:200] + '...', script_bytes=len(script), stack_items=len(stack), item_bytes=len(stack[0]), address_space_ceiling=MEM_CEILING, reference=want[0],
                       run={k: v for k, v in r.brief().items() if k in ('rc', 'sig', 'timeout', 'stderr')})
            if r.abnormal:
                part.violation('bounded-memory:' + r.crash_key('btcdeb'), wit)
                continue
            if (want[0] == 'ok' and (r.rc != 0 or r.stdout.decode('latin1') != expected_stdout(want[1]))) or (want[0] != 'ok' and r.rc != 1):
                part.violation('bounded-memory:result-differs', wit)
                continue
            part.nontrivial.add(nt_hash('mem', name))
    finally:
        cleanup_scratch(wd)
    return part.dump()


def main():
    ap = argparse.ArgumentParser()
    ap.add_argument('--tier', default=os.environ.get('VERIF_TIER', 'quick'))
    ap.add_argument('--replay')
    a = ap.parse_args()
    bindir = vbuild.build('asan')
    rep = Reporter(PROP, a.tier)
    if a.replay:
        d = json.load(open(a.replay))
        for w in d['witnesses']:
            print(json.dumps(w, indent=1)[:3000])
        return 0
    n = 150 if a.tier == 'quick' else 3000
    for r in parallel(worker, [(bindir, i, n) for i in range(16)]):
        rep.merge(r)
    plain = vbuild.build('plain')
    for r in parallel(memory_worker, [(plain, i) for i in range(5)]):
        rep.merge(r)
    return rep.finish(
        rule='scripts from the C01 generators (model-steered deep scripts, op soups, byte-level strings) plus scripts whose failure is raised as a C++ exception (numeric overflow, non-minimal numbers, empty-stack pops) and signature contexts with --tx/--txin; '
             'each run three times with different {--quiet, --debug=<subset>, DEBUG_* variables} in a random one of the three non-terminal stdin/stdout combinations, script on stdin or argv; '
             'every tenth case also with --verbose (must be refused), every seventh also through the scripted interactive session; plus four long runs over a ~1000 x 520-byte stack on the plain build under a 3 GiB address-space ceiling (resource fault injection). non-trivial = distinct (script, stack, mode, options) whose stdout/stderr/exit status matched the reference outcome',
        assumptions=['ref/script.py gives outcome and final stack (C01)', 'scripts longer than 480 bytes are passed on argv only (the stdin reader takes one line of at most 1023 characters)',
                     'on failure only the presence of a script error on stderr and exit status 1 are demanded, not the wording'],
        min_events=300)


if __name__ == '__main__':
    main_wrapper(main)
