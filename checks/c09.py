"""C09 — flag modification is exact and verification flags only ever restrict.

Events : (a) real btcdeb: -f<list> -v through the scripted REPL -> 'resulting flags' listing on stderr and the numeric
             flag word from vdump; -d listing; diagnostics / exit status for malformed lists.
         (b) behavioural probes through the real binary, non-interactive: for each flag with an effect, a script whose
             outcome depends on exactly that flag, run under -f+X / -f-X.
         (c) native harness: the same case under chains 0 = F0 < F1 < ... < Fk = ALL of flag sets.
Oracle : (a) set arithmetic on an independent table of the 21 names and the standard set; (b) the outcome flips with
         the flag; (c) monotonicity: success under B implies success under every A subset of B (pure relation between
         runs of the implementation).
"""
import sys, os, argparse, json, re
sys.path.insert(0, os.path.dirname(os.path.dirname(os.path.abspath(__file__))))
from vf.common import *
from vf import build as vbuild, proc
from ref.script import *
from ref import secp, sign as rsign, tx as rtx
from checks import gen, c02, c03
from checks.lockstep import parse_events

PROP = 'C09'
BULLET = '・'


def parse_listing(text):
    """names listed after a 'resulting flags:' / 'standard ... flags are:' header, in the bullet format"""
    names = []
    for ln in text.split('\n'):
        ln = ln.strip()
        if ln.startswith(BULLET) or ln.startswith('\xe3\x83\xbb'):
            nm = ln.replace(BULLET, '').replace('\xe3\x83\xbb', '').strip()
            if nm:
                names.append(nm)
    return names


def apply_list(mods):
    f = STANDARD
    for m in mods:
        if m[0] == '+':
            f |= F[m[1:]]
        else:
            f &= ~F[m[1:]]
    return f


def listing_worker(job):
    bindir, idx, n = job
    rng = sub_rng(PROP, 'list', idx)
    part = Partial()
    wd = scratch('c09a')
    btcdeb = os.path.join(bindir, 'btcdeb')
    try:
        lists = []
        if idx == 0:
            for nm in FLAG_NAMES:
                lists.append(['+' + nm])
                lists.append(['-' + nm])
            lists.append(['-' + nm for nm in FLAG_NAMES])
            lists.append(['+' + nm for nm in FLAG_NAMES])
        for i in range(n):
            k = rng.choice([1, 2, 2, 3, 5, 8, 21, 30])
            mods = [rng.choice('+-') + rng.choice(FLAG_NAMES) for _ in range(k)]
            if rng.random() < 0.3 and k >= 2:
                # the same flag added and removed: the last one wins
                nm = rng.choice(FLAG_NAMES)
                mods[0] = '+' + nm
                mods[-1] = '-' + nm if rng.random() < 0.5 else '+' + nm
                if rng.random() < 0.5:
                    mods[0], mods[-1] = mods[-1], mods[0]
            lists.append(mods)
        for mods in lists:
            part.evaluations += 1
            want = apply_list(mods)
            arg = ','.join(mods)
            form = rng.choice(['-f' + arg, '--modify-flags=' + arg])
            r, segs = proc.repl_session(btcdeb, [form, '-v', 'OP_1'], [], wd, timeout=30)
            wit = dict(list=arg, form=form[:3])
            if r.abnormal:
                part.violation('listing:' + r.crash_key('btcdeb'), dict(wit, run=r.brief()))
                continue
            if r.rc != 0 or not segs:
                part.violation('valid-flag-list-rejected', dict(wit, run=r.brief()))
                continue
            got = segs[0]['dump']['flags']
            if got != want:
                wit['want'] = [nm for nm in FLAG_NAMES if want & F[nm]]
                wit['got'] = [nm for nm in FLAG_NAMES if got & F[nm]]
                part.violation('flag-word-differs', wit)
                continue
            err = r.stderr.decode('utf-8', 'replace')
            m = err.find('resulting flags:')
            listed = parse_listing(err[m:].split('LOG:')[0]) if m >= 0 else None
            wnames = [nm for nm in FLAG_NAMES if want & F[nm]]
            if listed is None or (sorted(listed) != sorted(wnames) and not (not wnames and listed == ['(none)'])):
                wit['listed'] = listed
                wit['want'] = wnames
                part.violation('resulting-flags-listing-differs', wit)
                continue
            part.count('lists', 'exact')
            part.nontrivial.add(nt_hash(arg))
            part.sample(dict(list=arg[:100], resulting=[n for n in wnames][:30]), limit=1)
        # the option given twice: every entry of both lists counts (in order), or the command line is refused - an earlier list
        # is never silently dropped, valid or not
        for _ in range(4 if idx else 12):
            part.evaluations += 1
            k = rng.choice([2, 3, 4, 6])
            mods = [rng.choice('+-') + rng.choice(FLAG_NAMES) for _ in range(k)]
            cut = rng.randrange(1, k)
            first, second = ','.join(mods[:cut]), ','.join(mods[cut:])
            bad_first = rng.random() < 0.3
            if bad_first:
                first = rng.choice(['+BOGUS', ',,x', 'P2SH', '+p2sh'])
            forms = [rng.choice(['-f' + first, '--modify-flags=' + first]), rng.choice(['-f' + second, '--modify-flags=' + second])]
            r, segs = proc.repl_session(btcdeb, forms + ['-v', 'OP_1'], [], wd, timeout=30)
            wit = dict(first=first, second=second)
            if r.abnormal:
                part.violation('listing:' + r.crash_key('btcdeb'), dict(wit, run=r.brief()))
                continue
            if r.rc != 0 or not segs:
                if r.stderr.strip():
                    part.count('lists', 'option-given-twice:refused')
                    part.nontrivial.add(nt_hash('twice', first, second))
                else:
                    part.violation('malformed-list-no-diagnostic', dict(wit, run=r.brief()))
                continue
            if bad_first:
                part.violation('malformed-list-accepted', dict(wit, note='the first of two --modify-flags options'))
                continue
            got = segs[0]['dump']['flags']
            if got != apply_list(mods):
                wit['want'] = [nm for nm in FLAG_NAMES if apply_list(mods) & F[nm]]
                wit['got'] = [nm for nm in FLAG_NAMES if got & F[nm]]
                part.violation('flag-word-differs:option-given-twice', wit)
                continue
            part.count('lists', 'option-given-twice:combined')
            part.nontrivial.add(nt_hash('twice', first, second))
        # malformed lists must be rejected
        bad = ['P2SH', '+', '-', '+BOGUS', '-bogus', '+p2sh', '+P2SH,', ',+P2SH', '+P2SH,,-LOW_S', '++P2SH', '+P2SH -LOW_S', '+P2SH;-LOW_S', '*P2SH', '+P2SH,LOW_S', ' +P2SH', '+P2SH ', '+NONE', '-ALL',
               '+' + 'A' * 126, '+' + 'A' * 127, '+' + 'A' * 128, '+' + 'B' * 300, '+' + 'C' * 5000, '+P2SH,' + '-' + 'D' * 200, '+WITNESS\x01']
        # near misses of real names: every proper prefix, a name with one character more / less, another case
        near = []
        for nm in FLAG_NAMES:
            near += [sg + nm[:k] for sg in '+-' for k in range(1, len(nm))] + ['+' + nm + 'X', '-' + nm + '_', '+' + nm.lower(), '-' + nm[1:], '+' + nm + ' ']
        near = [b for b in near if b[1:] not in FLAG_NAMES]
        for b in (bad + rng.sample(near, 40) if idx == 0 else rng.sample(bad, 4) + rng.sample(near, 12) + ['+P2SH,' + rng.choice(near), rng.choice(near) + ',-LOW_S']):
            part.evaluations += 1
            r = proc.run([btcdeb, '-f' + b, 'OP_1'], wd, mode='ptyin', timeout=30)
            wit = dict(list=b[:200], run=r.brief())
            if r.abnormal:
                part.violation('malformed-list:' + r.crash_key('btcdeb'), wit)
            elif r.rc == 0:
                part.violation('malformed-list-accepted', wit)
            elif not r.stderr.strip():
                part.violation('malformed-list-no-diagnostic', wit)
            else:
                part.count('lists', 'malformed:rejected')
                part.nontrivial.add(nt_hash('bad', b))
        if idx == 0:
            part.evaluations += 1
            r = proc.run([btcdeb, '-d'], wd, mode='ptyin', timeout=30)
            listed = parse_listing(r.stdout.decode('utf-8', 'replace'))
            wnames = [nm for nm in FLAG_NAMES if STANDARD & F[nm]]
            if r.abnormal or r.rc != 0 or sorted(listed) != sorted(wnames):
                part.violation('default-flags-listing-differs', dict(listed=listed, want=wnames, run=r.brief()))
            else:
                part.count('lists', 'default-flags:exact')
                part.nontrivial.add(nt_hash('-d'))
    finally:
        cleanup_scratch(wd)
    return part.dump()


# ---- behavioural probes -----------------------------------------------------------------------------
SK = 0x1234567890abcdef1234567890abcdef1234567890abcdef1234567890abcdef
PUB = secp.pub_from_sec(SK)
DIGEST = b'\x07' * 32
R_, S_ = secp.ecdsa_sign_rs(SK, DIGEST, low_s=True)
SIG_OK = secp.der_sig(R_, S_) + b'\x01'
SIG_HIGH = secp.der_sig(R_, secp.n - S_) + b'\x01'
SIG_HT0 = secp.der_sig(R_, S_) + b'\x00'
SIG_NOTDER = b'\x30\x06\x02\x01\x01\x02\x01' + b'\x01\x01\x01\x01\x01'     # lengths do not add up
WITTX = None


def probes():
    """(flag, base modifications that unmask it, script, stack, needs_witness_tx, with-flag outcome, without-flag outcome)"""
    P = []

    def add(flag, base, script, stack, on, off, wtx=False):
        P.append(dict(flag=flag, base=base, script=script, stack=stack, on=on, off=off, wtx=wtx))
    add('P2SH', [], bytes([OP_HASH160, 20]) + hash160(bytes([OP_RETURN])) + bytes([OP_EQUAL]), [bytes([OP_RETURN])], 'fail', 'ok')
    add('DERSIG', ['-LOW_S', '-STRICTENC', '-NULLFAIL'], push_only(PUB) + bytes([OP_CHECKSIG]), [SIG_NOTDER], 'fail', 'ok')
    add('LOW_S', ['-NULLFAIL'], push_only(PUB) + bytes([OP_CHECKSIG]), [SIG_HIGH], 'fail', 'ok')
    add('STRICTENC', ['-NULLFAIL'], push_only(PUB) + bytes([OP_CHECKSIG]), [SIG_HT0], 'fail', 'ok')
    add('NULLFAIL', [], push_only(PUB) + bytes([OP_CHECKSIG]), [SIG_OK], 'fail', 'ok')
    add('NULLDUMMY', [], bytes([OP_0]) + push_only(PUB) + bytes([OP_1, OP_CHECKMULTISIG]), [b'\x01'], 'fail', 'ok')
    add('MINIMALDATA', [], bytes([1, 5]), [], 'fail', 'ok')
    add('DISCOURAGE_UPGRADABLE_NOPS', [], bytes([OP_NOP1, OP_1]), [], 'fail', 'ok')
    add('CHECKLOCKTIMEVERIFY', ['-DISCOURAGE_UPGRADABLE_NOPS'], push_only(b'\x01' * 6) + bytes([OP_CHECKLOCKTIMEVERIFY]), [], 'fail', 'ok')
    add('CHECKSEQUENCEVERIFY', ['-DISCOURAGE_UPGRADABLE_NOPS'], push_only(b'\x01' * 6) + bytes([OP_CHECKSEQUENCEVERIFY]), [], 'fail', 'ok')
    add('CONST_SCRIPTCODE', [], bytes([OP_CODESEPARATOR, OP_1]), [], 'fail', 'ok')
    add('MINIMALIF', [], bytes([OP_2, OP_IF, OP_1, OP_ENDIF]), [], 'fail', 'ok', wtx=True)
    add('WITNESS_PUBKEYTYPE', ['-NULLFAIL'], push_only(secp.pub_from_sec(SK, False)) + bytes([OP_CHECKSIG]), [SIG_OK], 'fail', 'ok', wtx=True)
    return P


def witness_tx_hex():
    t = rtx.make_tx(2, [[b'\x11' * 32, 0, b'', 0xffffffff]], [(1000, b'\x51')], 0, wit=[[b'\x01']])
    return rtx.ser_tx(t).hex()


def probe_worker(job):
    bindir, idx = job
    part = Partial()
    wd = scratch('c09b')
    btcdeb = os.path.join(bindir, 'btcdeb')
    try:
        P = probes()
        for k, p in enumerate(P):
            if k % 4 != idx:
                continue
            res = {}
            for state in ('+', '-'):
                mods = p['base'] + [state + p['flag']]
                args = ['-f' + ','.join(mods)]
                if p['wtx']:
                    args.append('--tx=0.00001:' + witness_tx_hex())
                args += ['0x' + p['script'].hex()] + ['0x' + x.hex() for x in p['stack']]
                r = proc.run([btcdeb] + args, wd, mode='ptyin', timeout=30)
                part.evaluations += 1
                if r.abnormal:
                    part.violation('probe:%s:%s' % (p['flag'], r.crash_key('btcdeb')), dict(flag=p['flag'], run=r.brief()))
                    res[state] = None
                    continue
                res[state] = 'ok' if r.rc == 0 else 'fail'
            if None in res.values():
                continue
            if res['+'] != p['on'] or res['-'] != p['off']:
                part.violation('probe:%s:outcome-does-not-follow-the-flag' % p['flag'], dict(flag=p['flag'], with_flag=res['+'], without_flag=res['-'], script=p['script'].hex()))
            else:
                part.count('probes', p['flag'] + ':flips')
                part.nontrivial.add(nt_hash('probe', p['flag']))
    finally:
        cleanup_scratch(wd)
    return part.dump()


# ---- monotonicity ---------------------------------------------------------------------------------------
def chain(rng, k=6):
    order = list(FLAG_NAMES)
    rng.shuffle(order)
    cuts = sorted(rng.sample(range(1, len(order)), k - 2))
    sets = [0]
    for c in cuts:
        sets.append(sum(F[n] for n in order[:c]))
    sets.append(ALL_FLAGS)
    if rng.random() < 0.5:
        # make sure the standard set is on the chain when the order allows it
        sets = sorted(set(sets + [STANDARD & s for s in sets[1:]]), key=lambda x: bin(x).count('1'))
        sets = [s for i, s in enumerate(sets) if all((s | t) == max(s, t, key=lambda x: bin(x).count('1')) for t in sets[:i])]
    return sets


def success_of(evs):
    u = [e for k, e in evs if k == 'U']
    if not u or not u[0].ret:
        return False
    st = [e for k, e in evs if k in ('S', 'C')]
    if any(k == 'CRASH' for k, e in evs):
        return None
    last = st[-1] if st else u[0]
    if not last.done or not last.ret:
        return False
    return bool(last.stack) and cast_bool(last.stack[-1])


def mono_worker(job):
    bindir, idx, n = job
    rng = sub_rng(PROP, 'mono', idx)
    part = Partial()
    wd = scratch('c09c')
    try:
        hc = []
        meta = []
        for i in range(n):
            r = rng.random()
            sets = chain(rng)
            if r < 0.5:
                sv = rng.choice([BASE, WITNESS_V0, TAPSCRIPT])
                base_flags = rng.choice(sets)
                st = gen.rnd_stack(rng, sigs=True)[:5]
                s = gen.gen_deep(rng, sv, base_flags, rng.choice([3, 8, 15, 30]), st, sigops=False, fail_keep=0.1)
                s = gen.strip_sigops(s)
                pre = ['SV %d' % sv]
                body = ['SC ' + hexs(s)] + (['ST ' + items(st)] if st else [])
                desc = dict(kind='script', script=s.hex(), stack=[x.hex() for x in st], sv=sv)
            elif r < 0.8:
                c = c02.gen_case(rng, 'm')
                full = c02.case_cmds(c)
                # case_cmds = N, TX, TI, SV, FL, [XD], SC, [ST], SU, CS -> drop N / FL / SU / CS
                pre = [x for x in full[1:] if not x.startswith(('FL ', 'SU', 'CS', 'N '))]
                body = []
                desc = dict(kind='signature', script=c['script'].hex(), sv=c['sv'], pattern=c.get('pattern'), notes=c['notes'])
            else:
                otype = rng.choice(c03.TYPES)
                sat = rng.choice(c03.SATS[otype])
                try:
                    sc = c03.build(rng, otype, sat)
                except Exception:
                    continue
                pre = ['TX ' + rtx.ser_tx(sc['tx']).hex().encode().hex(), 'TI %s -1' % rtx.ser_tx(sc['fund']).hex().encode().hex()]
                body = ['CF']
                desc = dict(kind='spend', scenario='%s/%s' % (otype, sat), tx=rtx.ser_tx(sc['tx']).hex(), txin=rtx.ser_tx(sc['fund']).hex())
            ids = []
            for j, fl in enumerate(sets):
                cid = 'm%d.%d.%d' % (idx, i, j)
                cmds = ['N ' + cid] + [x for x in pre if x.startswith(('TX', 'TI'))] + ['FL %d' % fl] + [x for x in pre if not x.startswith(('TX', 'TI'))] + body + ['SU', 'C']
                hc.append((cid, cmds))
                ids.append(cid)
            meta.append((desc, sets, ids))
        events, crashes, hangs = run_harness_cases(bindir, hc, wd)
        for cr in crashes:
            part.violation('crash:' + cr.key, dict(id=cr.case_id, log=cr.log[-1500:]))
        for desc, sets, ids in meta:
            part.evaluations += 1
            res = [success_of(parse_events(events.get(cid, []))) for cid in ids]
            if None in res:
                continue
            part.count('chains', desc['kind'] + ':' + ''.join('1' if x else '0' for x in res))
            bad = None
            for a in range(len(sets)):
                for b in range(a + 1, len(sets)):
                    if (sets[a] | sets[b]) == sets[b] and res[b] and not res[a]:
                        bad = (a, b)
            if bad:
                a, b = bad
                extra = [nm for nm in FLAG_NAMES if sets[b] & F[nm] and not sets[a] & F[nm]]
                part.violation('not-monotone:%s:%s' % (desc['kind'], desc.get('scenario') or desc.get('pattern') or 'script'),
                               dict(desc, fails_under=[nm for nm in FLAG_NAMES if sets[a] & F[nm]], succeeds_with_added=extra, flags_a=sets[a], flags_b=sets[b]))
                continue
            if any(res) and not all(res):
                part.nontrivial.add(nt_hash('mono', json.dumps(desc, sort_keys=True), tuple(sets)))
            part.sample(dict(kind=desc['kind'], chain_sizes=[bin(s).count('1') for s in sets], success=['1' if x else '0' for x in res]), limit=2)
    finally:
        cleanup_scratch(wd)
    return part.dump()


def main():
    ap = argparse.ArgumentParser()
    ap.add_argument('--tier', default=os.environ.get('VERIF_TIER', 'quick'))
    ap.add_argument('--replay')
    a = ap.parse_args()
    bindir = vbuild.build('asan')
    rep = Reporter(PROP, a.tier)
    if a.replay:
        d = json.load(open(a.replay))
        for w in d['witnesses']:
            print(json.dumps(w, indent=1)[:3000])
        return 0
    th = a.tier == 'thorough'
    for r in parallel(listing_worker, [(bindir, i, 60 if not th else 1200) for i in range(16)]):
        rep.merge(r)
    for r in parallel(probe_worker, [(bindir, i) for i in range(4)]):
        rep.merge(r)
    for r in parallel(mono_worker, [(bindir, i, 500 if not th else 10000) for i in range(16)]):
        rep.merge(r)
    return rep.finish(
        rule='(a) all 42 single +/-NAME lists, all-on/all-off, random lists of 1..30 elements with duplicates in both orders, 25 malformed lists (unknown names, missing sign, empty elements, separators, 126..5000-character names) and near misses of every real name (each proper prefix, one character more or less, lower case), alone and inside lists, -d; '
             '(b) one probe per flag that has an effect in the debugger (13 flags), each under +X / -X on an unmasking base; (c) chains of 6..10 flag sets ordered by inclusion from none to all 21 flags over '
             'model-steered scripts (base/v0/tapscript), signature contexts and --tx/--txin spends: success under B must imply success under every A subset of B. '
             'non-trivial = distinct exact flag list / rejected malformed list / flipping probe / chain whose verdict changes along the chain',
        assumptions=['(c) is a pure relation between runs of the implementation; success = runs to the end without error with a true top element',
                     'flags without any effect reachable in the debugger (CLEANSTACK, WITNESS, DISCOURAGE_UPGRADABLE_WITNESS_PROGRAM, TAPROOT, DISCOURAGE_UPGRADABLE_TAPROOT_VERSION) are listed but not probed'],
        min_events=300)


if __name__ == '__main__':
    main_wrapper(main)
