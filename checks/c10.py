"""C10 — resource limits are enforced at exactly the consensus bounds.

Same events and oracle as C01 (Instance::step() traces vs. ref.script.Session in lock-step), restricted to
boundary scripts: for each limit L and each way of reaching it, scripts at L-1, L, L+1 in BASE, WITNESS_V0
and TAPSCRIPT.  The evidence carries the observed matrix  limit/way/position/sigversion => outcome.
"""
import sys, os, argparse, json
sys.path.insert(0, os.path.dirname(os.path.dirname(os.path.abspath(__file__))))
from vf.common import *
from vf import build as vbuild
from ref.script import *
from checks import gen, c01
from checks.lockstep import exc_kind

PROP = 'C10'
SVS = [BASE, WITNESS_V0, TAPSCRIPT]
SVN = {0: 'base', 1: 'v0', 3: 'tapscript'}
POS = {-1: 'L-1', 0: 'L', 1: 'L+1', 2: 'L+2'}


def pushn(n, fill=0x61):
    return push_only(bytes([fill]) * n)


def fill_to(target, prefix=b''):
    """a script of exactly `target` bytes made of pushes (uncounted ops), ending with drops is not needed"""
    s = prefix
    while target - len(s) > 523 + 2:
        s += pushn(520)
    r = target - len(s)
    if r <= 0:
        return s
    if r <= 76:
        s += pushn(r - 1)
    elif r <= 257:
        s += bytes([OP_PUSHDATA1, r - 2]) + b'a' * (r - 2)
    else:
        s += bytes([OP_PUSHDATA2, (r - 3) & 255, (r - 3) >> 8]) + b'a' * (r - 3)
    assert len(s) == target, (len(s), target)
    return s


def boundary_cases():
    """deterministic matrix; each case carries 'cell' = limit/way/position"""
    out = []

    def add(cell, script, stack=(), flags=STANDARD, svs=SVS, succ=b'', allow=False):
        for sv in svs:
            out.append(dict(script=script, stack=list(stack), flags=flags, sv=sv, succ=succ, cell='%s/%s' % (cell, SVN[sv]), layer='limit', allow=allow))
    # ---- 520-byte pushes
    for d in (-1, 0, 1):
        n = 520 + d
        add('push520/PUSHDATA2/%s' % POS[d], bytes([OP_PUSHDATA2, n & 255, n >> 8]) + b'x' * n)
        add('push520/PUSHDATA4/%s' % POS[d], bytes([OP_PUSHDATA4]) + n.to_bytes(4, 'little') + b'x' * n, flags=STANDARD & ~F["MINIMALDATA"])
        # inside a P2SH redeem script the push is not pre-parsed: must fail with PUSH_SIZE at execution
        # (the redeem script itself is limited to 520 bytes, so only L-1.. cases that fit are reachable)
    # a scriptPubKey taken from a transaction is not pre-parsed: the push limit is enforced by execution, for EVERY decoded
    # operation - also inside a branch that is not executed
    for d in (-1, 0, 1):
        n = 520 + d
        big = bytes([OP_PUSHDATA2, n & 255, n >> 8]) + b'z' * n
        add('push520/unexecuted-branch-in-scriptPubKey/%s' % POS[d], bytes([OP_0]), succ=bytes([OP_IF]) + big + bytes([OP_DROP, OP_ENDIF, OP_1]), svs=[BASE])
        add('push520/executed-in-scriptPubKey/%s' % POS[d], bytes([OP_1]), succ=bytes([OP_IF]) + big + bytes([OP_DROP, OP_ENDIF, OP_1]), svs=[BASE])
        add('push520/unexecuted-else-in-scriptPubKey/%s' % POS[d], bytes([OP_1]), succ=bytes([OP_IF, OP_1, OP_ELSE]) + big + bytes([OP_ENDIF]), svs=[BASE])
    # with --allow-disabled-opcodes OP_CAT is the one operation that builds longer elements out of shorter ones: its result is an
    # element like any other (the original OP_CAT and BIP347 both refuse a result of more than 520 bytes)
    for d in (-1, 0, 1):
        n = 520 + d
        add('push520/OP_CAT-result/260+%d/%s' % (n - 260, POS[d]), pushn(260) + pushn(n - 260, 0x62) + bytes([OP_CAT, OP_SIZE, OP_NIP]), allow=True, svs=[BASE, WITNESS_V0])
        add('push520/OP_CAT-result/%d+1/%s' % (n - 1, POS[d]), pushn(n - 1) + pushn(1, 0x62) + bytes([OP_CAT, OP_SIZE, OP_NIP]), allow=True, svs=[BASE, WITNESS_V0])
        add('push520/OP_CAT-result/empty+%d/%s' % (n if d < 1 else 520, POS[d]), bytes([OP_0]) + pushn(min(n, 520), 0x62) + bytes([OP_CAT, OP_SIZE, OP_NIP]), allow=True, svs=[BASE])
    add('push520/OP_CAT-result/doubling/L+1', pushn(260) + bytes([OP_DUP, OP_CAT]) * 4 + bytes([OP_SIZE, OP_NIP]), allow=True, svs=[BASE])
    for d in (-1, 0, 1):
        n = 75 + d
        add('push-direct/%d' % n, (bytes([n]) if n <= 75 else bytes([OP_PUSHDATA1, n])) + b'y' * n)
    # ---- 1000 stack items
    for d in (-1, 0, 1):
        n = 1000 + d
        add('stack1000/pushes/%s' % POS[d], bytes([OP_1]) * n)
        add('stack1000/initial+push/%s' % POS[d], bytes([OP_1]), stack=[b'\x01'] * (n - 1))
        add('stack1000/initial+nop/%s' % POS[d], bytes([OP_NOP]), stack=[b'\x01'] * n, flags=STANDARD)
        add('stack1000/initial+2drop/%s' % POS[d], bytes([OP_2DROP]), stack=[b'\x01'] * n)
        add('stack1000/3dup/%s' % POS[d], bytes([OP_1]) * (n - 3 * 60) + bytes([OP_3DUP]) * 60)
        add('stack1000/2dup/%s' % POS[d], bytes([OP_1]) * (n - 2 * 100) + bytes([OP_2DUP]) * 100)
        add('stack1000/dup-tapscript/%s' % POS[d], bytes([OP_1]) + bytes([OP_DUP]) * (n - 1), svs=[TAPSCRIPT])
        add('stack1000/alt-moves/%s' % POS[d], bytes([OP_1]) * (n - 1) + bytes([OP_TOALTSTACK]) * 150 + bytes([OP_1]))
        add('stack1000/alt-roundtrip/%s' % POS[d], bytes([OP_1]) * (n - 1) + bytes([OP_TOALTSTACK]) * 90 + bytes([OP_1]) + bytes([OP_FROMALTSTACK]) * 90)
        add('stack1000/depth/%s' % POS[d], bytes([OP_1]) * (n - 1) + bytes([OP_DEPTH]))
        add('stack1000/ifdup/%s' % POS[d], bytes([OP_1]) * (n - 1) + bytes([OP_IFDUP]))
        add('stack1000/over-tuck/%s' % POS[d], bytes([OP_1]) * (n - 2) + bytes([OP_OVER, OP_TUCK]) if d >= 0 else bytes([OP_1]) * (n - 2) + bytes([OP_OVER]))
    # the re-enabled opcodes (--allow-disabled-opcodes) are operations like any other: the combined size is checked after them too
    for d in (-1, 0, 1):
        n = 1000 + d
        for opn, extra in (('OP_INVERT', 0), ('OP_2MUL', 0), ('OP_2DIV', 0), ('OP_CAT', 1), ('OP_AND', 1)):
            add('stack1000/initial+%s/%s' % (opn, POS[d]), bytes([OP[opn[3:]]]), stack=[b'\x01'] * (n + extra), allow=True, svs=[BASE, WITNESS_V0])
    # ---- 201 counted operations
    for d in (-1, 0, 1):
        n = 201 + d
        add('ops201/nops/%s' % POS[d], bytes([OP_NOP]) * n)
        add('ops201/unexecuted/%s' % POS[d], bytes([OP_0, OP_IF]) + bytes([OP_NOP]) * (n - 2) + bytes([OP_ENDIF]))
        add('ops201/mixed-with-pushes/%s' % POS[d], (bytes([OP_1, OP_DROP]) * n))
        add('ops201/reserved-not-counted/%s' % POS[d], bytes([OP_0, OP_IF]) + bytes([OP_RESERVED]) * 50 + bytes([OP_NOP]) * (n - 2) + bytes([OP_ENDIF]), svs=[BASE, WITNESS_V0])
        for k in (0, 1, 3, 15, 19, 20):
            keys = b''.join(push_only(bytes([2]) + bytes([k + 1]) * 32) for _ in range(k))
            add('ops201/multisig-%d-keys/%s' % (k, POS[d]), bytes([OP_NOP]) * (n - 1 - k) + bytes([OP_0, OP_0]) + keys + push_num(k) + bytes([OP_CHECKMULTISIG]),
                svs=[BASE, WITNESS_V0], flags=STANDARD)
        # signatures that are actually tried against the keys: every key still counts once, and the operations AFTER the
        # multisig must see the full count
        for k in (1, 2, 5, 20):
            keys = b''.join(push_only(bytes([2]) + bytes([k + 7]) * 32) for _ in range(k))
            body = bytes([OP_0, OP_0, OP_1]) + keys + push_num(k) + bytes([OP_CHECKMULTISIG, OP_DROP])     # one (empty) signature tried against all k keys
            counted = 1 + k + 1
            add('ops201/multisig-%d-keys-1-sig-then-nops/%s' % (k, POS[d]), body + bytes([OP_NOP]) * (n - counted) + bytes([OP_1]), svs=[BASE, WITNESS_V0], flags=STANDARD)
            add('ops201/two-multisigs-%d-keys/%s' % (k, POS[d]), body + body + bytes([OP_NOP]) * (n - 2 * counted) + bytes([OP_1]), svs=[BASE, WITNESS_V0], flags=STANDARD)
        # op count resets between scriptSig / scriptPubKey
        add('ops201/across-scripts/%s' % POS[d], bytes([OP_1]) * 3, succ=bytes([OP_NOP]) * n, svs=[BASE])
        add('ops201/scriptsig-then-201/%s' % POS[d], bytes([OP_NOP]) * 150 + bytes([OP_1]), succ=bytes([OP_NOP]) * n, svs=[BASE], flags=STANDARD)
    # ---- 20 multisig keys
    for k in (19, 20, 21):
        keys = b''.join(push_only(bytes([2]) + bytes([k]) * 32) for _ in range(k))
        add('multisig20/%d-keys' % k, bytes([OP_0, OP_0]) + keys + push_num(k) + bytes([OP_CHECKMULTISIG]), svs=[BASE, WITNESS_V0])
        add('multisig20/%d-keys-verify' % k, bytes([OP_0, OP_0]) + keys + push_num(k) + bytes([OP_CHECKMULTISIGVERIFY, OP_1]), svs=[BASE, WITNESS_V0])
    add('multisig20/negative', bytes([OP_0, OP_0, OP_1NEGATE, OP_CHECKMULTISIG]), svs=[BASE, WITNESS_V0])
    add('multisig20/sigs>keys', bytes([OP_0, OP_2, OP_2]) + push_only(b'\x02' * 33) + bytes([OP_1, OP_CHECKMULTISIG]), svs=[BASE, WITNESS_V0])
    # ---- 10,000-byte scripts
    for d in (-1, 0, 1):
        n = 10000 + d
        add('script10000/pushes/%s' % POS[d], fill_to(n))
        add('script10000/nops-then-pushes/%s' % POS[d], fill_to(n, bytes([OP_NOP]) * 150))
        # the limit applies to every script that is evaluated: also to a scriptPubKey reached after a scriptSig
        add('script10000/scriptPubKey/%s' % POS[d], bytes([OP_1]), succ=fill_to(n), svs=[BASE])
        add('script10000/scriptSig-before-small-scriptPubKey/%s' % POS[d], fill_to(n), succ=bytes([OP_1]), svs=[BASE])
        # ... and to a P2SH redeem script: on the network it cannot be longer than one push (520 bytes), but the initial stack of
        # a debugging session is given directly, so the size test of the redeem-script phase is the only thing that applies
        red = fill_to(n)
        add('script10000/p2sh-redeem-from-initial-stack/%s' % POS[d], bytes([OP_HASH160, 20]) + hash160(red) + bytes([OP_EQUAL]), stack=[red], svs=[BASE])
        red2 = fill_to(n - 130, (push_only(b'q' * 40) + bytes([OP_DROP])) * 130)[:-0 or None]
        add('script10000/p2sh-redeem-with-130-ops-from-initial-stack/%s' % POS[d], bytes([OP_HASH160, 20]) + hash160(red2) + bytes([OP_EQUAL]), stack=[b'\x01', red2], svs=[BASE])
    # ---- 4-byte numeric operands, 5-byte lock-time operands
    for n in (3, 4, 5):
        v = b'\x01' * n
        for op in (OP_1ADD, OP_NEGATE, OP_NOT, OP_0NOTEQUAL, OP_ABS):
            add('num4/%s/%d-bytes' % (OPNAME[op], n), push_only(v) + bytes([op]))
        for op in (OP_ADD, OP_SUB, OP_MIN, OP_NUMEQUAL, OP_BOOLAND, OP_LESSTHAN):
            add('num4/%s/%d-bytes-first' % (OPNAME[op], n), push_only(v) + bytes([OP_1, op]))
            add('num4/%s/%d-bytes-second' % (OPNAME[op], n), bytes([OP_1]) + push_only(v) + bytes([op]))
        add('num4/OP_WITHIN/%d-bytes' % n, push_only(v) + bytes([OP_0]) + push_only(v) + bytes([OP_WITHIN]))
        # every operand position on its own, in every order relation of the other two (all three operands are decoded, whatever the result)
        for posn in ('x', 'min', 'max'):
            for rel, (x, lo, hi) in (('x<min', (1, 5, 9)), ('min<=x<max', (6, 5, 9)), ('x>=max', (12, 5, 9)), ('min>max', (6, 9, 5))):
                ops = {'x': push_num(x), 'min': push_num(lo), 'max': push_num(hi)}
                ops[posn] = push_only(v)
                add('num4/OP_WITHIN/%d-bytes-%s-operand/%s' % (n, posn, rel), ops['x'] + ops['min'] + ops['max'] + bytes([OP_WITHIN]))
        add('num4/OP_PICK/%d-bytes' % n, bytes([OP_1]) + push_only(v) + bytes([OP_PICK]))
        add('num4/multisig-count/%d-bytes' % n, bytes([OP_0, OP_0]) + push_only(v) + bytes([OP_CHECKMULTISIG]), svs=[BASE, WITNESS_V0])
    add('num4/result-may-overflow', push_only(b'\xff\xff\xff\x7f') + bytes([OP_1ADD]))
    add('num4/overflowed-result-reused', push_only(b'\xff\xff\xff\x7f') + bytes([OP_1ADD, OP_1ADD]))
    add('num4/sum-of-max', push_only(b'\xff\xff\xff\x7f') * 2 + bytes([OP_ADD]))
    for n in (4, 5, 6):
        v = b'\x01' * n
        add('locktime5/CLTV/%d-bytes' % n, push_only(v) + bytes([OP_CHECKLOCKTIMEVERIFY]))
        add('locktime5/CSV/%d-bytes' % n, push_only(v) + bytes([OP_CHECKSEQUENCEVERIFY]))
        add('locktime5/CSV-disabled-bit/%d-bytes' % n, push_only(b'\x01' * (n - 1) + (b'\x80' if n == 4 else b'\x01') if n != 5 else b'\x00\x00\x00\x80\x00') + bytes([OP_CHECKSEQUENCEVERIFY]))
    add('locktime5/CLTV-negative', push_only(b'\x01\x00\x00\x00\x80') + bytes([OP_CHECKLOCKTIMEVERIFY]))
    add('locktime5/CLTV-flag-off', push_only(b'\x01' * 6) + bytes([OP_CHECKLOCKTIMEVERIFY]), flags=STANDARD & ~F["CHECKLOCKTIMEVERIFY"] & ~F["DISCOURAGE_UPGRADABLE_NOPS"])
    return out


def perturbations(idx, n):
    """thorough: random scripts hovering around every boundary"""
    rng = sub_rng(PROP, 'perturb', idx)
    out = []
    for i in range(n):
        sv = rng.choice(SVS)
        kind = rng.choice(['stack', 'ops', 'size', 'push', 'num'])
        flags = rng.choice([STANDARD, STANDARD, 0, STANDARD & ~F["MINIMALDATA"]])
        if kind == 'stack':
            init = rng.choice([0, 0, 500, 990, 997, 999, 1000, 1001])
            st = [num_encode(rng.choice([0, 1, 2])) for _ in range(init)]
            tgt = 1000 + rng.choice([-3, -2, -1, 0, 1, 2]) - init
            s = bytes([OP_1]) * max(0, tgt - rng.choice([0, 1, 2, 5]))
            tail = bytes(rng.choice([OP_DUP, OP_2DUP, OP_3DUP, OP_OVER, OP_2OVER, OP_TUCK, OP_DEPTH, OP_IFDUP, OP_TOALTSTACK, OP_FROMALTSTACK, OP_DROP, OP_1, OP_SIZE, OP_NIP])
                         for _ in range(rng.randint(0, 8)))
            out.append(dict(script=s + tail, stack=st, flags=flags, sv=sv, cell='perturb/stack', layer='limit'))
        elif kind == 'ops':
            n0 = 201 + rng.choice([-3, -2, -1, 0, 1, 2])
            body = b''
            cnt = 0
            while cnt < n0:
                r = rng.random()
                if r < 0.5:
                    body += bytes([OP_NOP]); cnt += 1
                elif r < 0.7:
                    body += bytes([OP_1, OP_DROP]); cnt += 1
                elif r < 0.8 and cnt + 3 <= n0:
                    body += bytes([OP_0, OP_IF, OP_VERIF if False else OP_NOP, OP_ENDIF]); cnt += 3
                elif r < 0.9:
                    body += bytes([OP_RESERVED]) if False else bytes([OP_1, OP_1, OP_ADD, OP_DROP]); cnt += 2
                else:
                    k = rng.randint(0, 5)
                    if cnt + 1 + k <= n0 + 1 and sv != TAPSCRIPT:
                        keys = b''.join(push_only(b'\x02' + bytes([7]) * 32) for _ in range(k))
                        body += bytes([OP_0, OP_0]) + keys + push_num(k) + bytes([OP_CHECKMULTISIG, OP_DROP]); cnt += 2 + k
                    else:
                        body += bytes([OP_NOP]); cnt += 1
            out.append(dict(script=body, stack=[], flags=flags, sv=sv, cell='perturb/ops', layer='limit'))
        elif kind == 'size':
            n0 = 10000 + rng.choice([-2, -1, 0, 1, 2])
            out.append(dict(script=fill_to(n0, bytes([OP_NOP]) * rng.randint(0, 100)), stack=[], flags=flags, sv=sv, cell='perturb/size', layer='limit'))
        elif kind == 'push':
            n0 = 520 + rng.choice([-2, -1, 0, 1, 2])
            pre = bytes([OP_1]) * rng.randint(0, 3)
            out.append(dict(script=pre + bytes([OP_PUSHDATA2, n0 & 255, n0 >> 8]) + bytes(rng.randrange(256) for _ in range(n0)) + bytes([OP_SIZE]), stack=[], flags=flags, sv=sv, cell='perturb/push', layer='limit'))
        else:
            ln = rng.choice([3, 4, 4, 5, 5, 6])
            v = bytes(rng.randrange(1, 256) for _ in range(ln - 1)) + bytes([rng.choice([0x01, 0x7f, 0x81, 0xff])])
            op = rng.choice([OP_1ADD, OP_1SUB, OP_NEGATE, OP_ABS, OP_NOT, OP_ADD, OP_SUB, OP_MAX, OP_WITHIN, OP_CHECKLOCKTIMEVERIFY, OP_CHECKSEQUENCEVERIFY, OP_PICK, OP_ROLL, OP_NUMEQUALVERIFY, OP_GREATERTHAN])
            out.append(dict(script=bytes([OP_1, OP_1]) + push_only(v) + bytes([op]), stack=[], flags=flags, sv=sv, cell='perturb/num', layer='limit'))
    return out


def impl_outcome(evs):
    sc = [e for k, e in evs if k == 'SC']
    if any(k == 'CRASH' for k, e in evs):
        return 'crash'
    if sc and sc[0][1] != '1':
        return 'refused'
    u = [e for k, e in evs if k == 'U']
    if u and not u[0].ret:
        return 'setup:' + u[0].err
    st = [e for k, e in evs if k == 'S']
    if not st:
        return 'no-steps'
    l = st[-1]
    if l.ret and l.done:
        return 'ok'
    return exc_kind(l.exc) or l.err


def post(c, evs, part):
    part.count('matrix', '%s => %s' % (c['cell'], impl_outcome(evs)))
    if impl_outcome(evs) != 'refused':
        part.nontrivial.add(nt_hash(c['script'], tuple(c['stack']), c['flags'], c['sv'], c.get('succ') or None))


def worker(job):
    bindir, kind, idx, n = job
    part = Partial()
    if kind == 'matrix':
        cases = [c for i, c in enumerate(boundary_cases()) if i % n == idx]
    else:
        cases = perturbations(idx, n)
    for i, c in enumerate(cases):
        c['id'] = '%s.%d.%d' % (kind, idx, i)
    c01.PROP = PROP
    c01.execute(bindir, cases, part, tag='c10', post=post)
    # re-key violations by matrix cell so that findings are keyed by scenario
    cells = {c['id']: c['cell'] for c in cases}
    newv = []
    for k, w in part.violations:
        cid = (w or {}).get('id', '').split('/')[0] if w else ''
        cell = cells.get(cid, '')
        base = '/'.join(cell.split('/')[:1] + cell.split('/')[-1:]) if cell else ''
        newv.append(('%s:%s' % (base, k) if base else k, w))
    part.violations = newv
    return part.dump()


def txlevel_worker(job):
    """limits that only exist at the level of a spend: the 1000-element initial stack of a tapscript (the script, the control
    block and the annex are not among the elements), built as real taproot spends and judged against full reference validation"""
    bindir, idx = job
    from checks import c03
    rng = sub_rng(PROP, 'txlevel', idx)
    part = Partial()
    wd = scratch('c10t')
    try:
        scs = []
        for i, (otype, sat) in enumerate([('p2tr-script', x) for x in ('initial-stack-999', 'initial-stack-1000', 'initial-stack-1001', 'initial-stack-998-annex', 'initial-stack-1000-annex', 'initial-stack-1001-annex')] +
                                         [('p2wsh-hashlock', x) for x in ('script-521-bytes', 'script-9999-bytes', 'script-10000-bytes', 'script-10001-bytes')] +
                                         [('p2wsh', 'witness-item-521')]):
            sc = c03.build(rng, otype, sat)
            sc['otype'], sc['sat'] = otype, sat
            sc['flags'], sc['flagmod'] = STANDARD, 'standard'
            sc['select'] = -1
            sc['id'] = 'tx%d.%d' % (idx, i)
            scs.append(sc)
        events, crashes, hangs = run_harness_cases(bindir, [(sc['id'], c03.scenario_cmds(sc['id'], sc, sc['select'])) for sc in scs], wd)
        for cr in crashes:
            part.violation('txlevel:crash:' + cr.key, dict(id=cr.case_id, log=cr.log[-1500:]))
        for sc in scs:
            before = len(part.violations)
            c03.judge(sc, c03.parse_events(events.get(sc['id'], [])), part)
            part.violations[before:] = [(('stack1000/tapscript-spend:' if sc['otype'] == 'p2tr-script' else 'segwit-spend:') + k, w) for k, w in part.violations[before:]]
            part.count('matrix', '%s/%s' % ('stack1000/tapscript-spend' if sc['otype'] == 'p2tr-script' else 'segwit-spend', sc['sat']))
    finally:
        cleanup_scratch(wd)
    return part.dump()


def binary_worker(job):
    """the plain-script cells of the matrix through the real binary: `btcdeb [-f...] <script> <stack...>`, non-interactive"""
    bindir, idx, nchunks = job
    from vf import proc
    from checks import c03, c08
    part = Partial()
    wd = scratch('c10b')
    btcdeb = os.path.join(bindir, 'btcdeb')
    try:
        cells = [c for c in boundary_cases() if c['sv'] == BASE and not c.get('succ') and not is_p2sh(c['script'])]
        for i, c in enumerate(cells):
            if i % nchunks != idx:
                continue
            args = ['-z'] if c.get('allow') else []
            fs = c03.flagstr(c['flags'])
            if fs:
                args.append('--modify-flags=' + fs)
            args += ['0x' + c['script'].hex()] + ['0x' + x.hex() for x in c['stack']]
            if sum(len(a) + 1 for a in args) > 120000:
                continue
            want = c08.ref_run(c['script'], c['stack'], c['flags'], BASE, allow_disabled=bool(c.get('allow')))
            r = proc.run([btcdeb] + args, wd, mode='ptyin', timeout=60)
            part.evaluations += 1
            part.count('binary_cells', c['cell'].split('/')[0])
            wit = dict(cell=c['cell'], script=c['script'].hex()[:3000], stack_items=len(c['stack']), flags=c['flags'], via='btcdeb binary', reference=want[0] if want[0] != 'fail' else want[1],
                       run={k: v for k, v in r.brief().items() if k in ('rc', 'sig', 'timeout', 'stderr', 'sanlog')})
            cellkey = '/'.join(c['cell'].split('/')[:1] + c['cell'].split('/')[-2:-1])
            if r.abnormal:
                part.violation('%s:binary:%s' % (cellkey, r.crash_key('btcdeb')), wit)
                continue
            if want[0] == 'ok':
                numeric = any(isinstance(x, tuple) for x in want[1])     # (results of the re-enabled numeric opcodes: judged by C17, here only the verdict)
                if r.rc != 0 or (not numeric and r.stdout.decode('latin1') != c08.expected_stdout(want[1])):
                    part.violation('%s:binary:rejects-or-misprints-a-script-within-the-limits' % cellkey, wit)
                    continue
            else:
                if r.rc == 0:
                    part.violation('%s:binary:accepts-a-script-beyond-the-limit' % cellkey, wit)
                    continue
            part.nontrivial.add(nt_hash('bin', c['script'], tuple(c['stack']), c['flags']))
    finally:
        cleanup_scratch(wd)
    return part.dump()


def main():
    ap = argparse.ArgumentParser()
    ap.add_argument('--tier', default=os.environ.get('VERIF_TIER', 'quick'))
    ap.add_argument('--replay')
    a = ap.parse_args()
    bindir = vbuild.build('asan')
    if a.replay:
        return c01.replay(a.replay, bindir)
    rep = Reporter(PROP, a.tier)
    jobs = [(bindir, 'matrix', i, 32) for i in range(32)]
    if a.tier == 'thorough':
        jobs += [(bindir, 'perturb', i, 1250) for i in range(32)]
    else:
        jobs += [(bindir, 'perturb', i, 60) for i in range(16)]
    for r in parallel(worker, jobs):
        rep.merge(r)
    for r in parallel(binary_worker, [(bindir, i, 16) for i in range(16)]):
        rep.merge(r)
    for r in parallel(txlevel_worker, [(bindir, i) for i in range(2 if a.tier == 'quick' else 16)]):
        rep.merge(r)
    steps = rep.tables.get('step_events', {}).get('n', 0)
    for t in ('layer', 'ops_executed', 'sigversion', 'cont_runs'):
        rep.tables.pop(t, None)
    return rep.finish(
        rule='deterministic matrix limit x way-of-reaching x {L-1,L,L+1} x {base,v0,tapscript} (520-byte pushes, 1000 stack+altstack items, 201 counted ops incl. multisig key counts '
             'and unexecuted branches and across scriptSig/scriptPubKey, 20 multisig keys, 10,000-byte scripts also as scriptPubKey, 4-byte numeric and 5-byte lock-time operands; the 1000-element initial stack of real tapscript spends with and without annex) plus seeded random perturbations around each boundary; '
             'a quarter of the cases is run a second time "hovering" (every step taken, taken back, taken again) and must give the same trace; '
             'every case is judged step by step against the reference interpreter; the legacy plain-script cells also run through the real binary (non-interactive: exit status and printed final stack); non-trivial = distinct case (all of them sit on or next to a limit)',
        assumptions=['ref/script.py encodes the consensus limits; lock-time success paths (needing a transaction) are exercised by C02/C03'],
        extra={'step_events_compared': steps}, min_events=500, observed=steps)


if __name__ == '__main__':
    main_wrapper(main)
