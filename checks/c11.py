"""C11 — mock signatures affect exactly the listed signature/key pairs.

Events : native harness with Instance::parse_pretend_valid_expr + step traces, each script run WITH and WITHOUT the
         option; real btcdeb --pretend-valid=... non-interactive result and rejection of malformed lists.
Oracle : ref.script with mock semantics for runs that involve a listed pair (S:P succeeds in CHECKSIG / CHECKSIGVERIFY /
         CHECKMULTISIG / CHECKSIGADD regardless of context and encoding; another signature for P gains nothing from the
         option -- it is either evaluated normally or simply fails, both readings accepted); non-interference
         (relational): a script in which no listed key is ever checked gives a step-for-step identical trace with and
         without the option.
"""
import sys, os, argparse, json
sys.path.insert(0, os.path.dirname(os.path.dirname(os.path.abspath(__file__))))
from vf.common import *
from vf import build as vbuild, proc
from ref.script import *
from ref import secp, sign as rsign, tx as rtx
from ref.verify import TxChecker
from checks import lockstep, c02
from checks.lockstep import parse_events, compare_session

PROP = 'C11'
SVN = {0: 'base', 1: 'v0', 3: 'tapscript'}


def rb(rng, n):
    return bytes(rng.randrange(256) for _ in range(n))


def rnd_blob(rng, key=False):
    if key:
        return rng.choice([rb(rng, 33), rb(rng, 32), b'\x02' + rb(rng, 32), rb(rng, 65), rb(rng, 5), rb(rng, 20), rb(rng, 1), rb(rng, rng.choice([127, 128, 255, 256, 500, 511, 512, 513, 519, 520]))])
    return rng.choice([rb(rng, 64), rb(rng, 71), rb(rng, 8), rb(rng, 5), rb(rng, 72), b'\x30' + rb(rng, 9), rb(rng, 1), rb(rng, rng.choice([127, 128, 255, 256, 500, 511, 512, 513, 519, 520]))])


def make_case(rng, cid):
    sv = rng.choice([BASE, BASE, WITNESS_V0, TAPSCRIPT])
    flags = rng.choice([STANDARD, STANDARD, 0, STANDARD & ~F["NULLFAIL"], STANDARD & ~F["DISCOURAGE_UPGRADABLE_PUBKEYTYPE"]])
    npairs = rng.choice([1, 1, 2, 3, 6])
    keys = [rnd_blob(rng, True) for _ in range(npairs)]
    if sv == TAPSCRIPT:
        keys = [rb(rng, 32) if rng.random() < 0.8 else k for k in keys]
    sigs = [rnd_blob(rng) for _ in range(npairs)]
    mode = 'distinct'
    if npairs >= 2 and rng.random() < 0.25:
        sigs[1] = sigs[0]           # the same signature listed for two keys
        mode = 'duplicate-signature'
    if npairs >= 2 and rng.random() < 0.2:
        keys[-1] = keys[0]          # the same key listed with two signatures
        mode = 'duplicate-key' if mode == 'distinct' else mode
    pairs = list(zip(sigs, keys))
    if npairs >= 2 and rng.random() < 0.3:
        # pairs that recombine the signature of one listed pair with the key of another (a sub-grid of sigs x keys), in any order
        a, b = rng.sample(range(npairs), 2)
        extra = [(sigs[a], keys[b])] + ([(sigs[b], keys[a])] if rng.random() < 0.4 else [])
        extra = [x for x in extra if x not in pairs]
        if extra:
            if rng.random() < 0.6:
                pairs = pairs + extra                  # listed after the pairs they recombine
            else:
                for x in extra:
                    pairs.insert(rng.randrange(len(pairs) + 1), x)
            mode = 'cross-pairs'
    npairs = len(pairs)
    other_key = rnd_blob(rng, True) if sv != TAPSCRIPT else rb(rng, 32)
    other_sig = rnd_blob(rng)
    # choose what the script checks
    use = rng.choice(['listed', 'listed', 'listed', 'wrong-sig-for-listed-key', 'listed-sig-for-other-key', 'unlisted', 'unlisted', 'mixed', 'recombined-unlisted'])
    pat = rng.choice(['checksig', 'checksigverify', 'multisig', 'multisig'] if sv != TAPSCRIPT else ['checksig', 'checksigverify', 'checksigadd', 'checksigadd'])
    i = rng.randrange(npairs)
    if mode == 'cross-pairs' and use == 'listed' and rng.random() < 0.6:
        i = max(k for k in range(npairs) if sum(1 for q in pairs if q[0] == pairs[k][0]) > 1 and sum(1 for q in pairs if q[1] == pairs[k][1]) > 1)   # a recombining pair
    # a listed signature with ANOTHER listed key, the combination itself not listed: must not be accepted
    recomb = [(sa, kb) for sa, _ in pairs for _, kb in pairs if (sa, kb) not in pairs]
    if use == 'recombined-unlisted' and not recomb:
        use = 'unlisted'

    def pick(u):
        if u == 'listed':
            return pairs[i]
        if u == 'wrong-sig-for-listed-key':
            return (other_sig, pairs[i][1])
        if u == 'recombined-unlisted':
            return recomb[i % len(recomb)]
        if u == 'listed-sig-for-other-key':
            return (pairs[i][0], other_key)
        return (other_sig, other_key)
    stack = []
    if pat in ('checksig', 'checksigverify'):
        s, k = pick(use if use != 'mixed' else 'listed')
        script = push_only(k) + bytes([OP_CHECKSIG if pat == 'checksig' else OP_CHECKSIGVERIFY]) + (bytes([OP_1]) if pat == 'checksigverify' else b'')
        stack = [s]
        if rng.random() < 0.25:
            script = push_only(s) + script
            stack = []
            pat += '-sig-in-script'
    elif pat == 'checksigadd':
        n = rng.choice([1, 2, 3])
        sel = [pick(use if use != 'mixed' else rng.choice(['listed', 'unlisted', 'wrong-sig-for-listed-key'])) for _ in range(n)]
        if use == 'listed' and n <= npairs:
            sel = [pairs[(i + j) % npairs] for j in range(n)]
        script = push_only(sel[0][1]) + bytes([OP_CHECKSIG])
        for s, k in sel[1:]:
            script += push_only(k) + bytes([OP_CHECKSIGADD])
        stack = [s for s, k in reversed(sel)]
        if rng.random() < 0.3:
            stack[rng.randrange(len(stack))] = b''
    else:
        n = rng.choice([1, 2, 3])
        m = rng.randint(1, n)
        sel = [pick(use if use != 'mixed' else rng.choice(['listed', 'unlisted', 'wrong-sig-for-listed-key'])) for _ in range(n)]
        if use == 'listed':
            sel = [pairs[(i + j) % npairs] for j in range(n)]
        keys_in_script = [k for s, k in sel]
        chosen = sorted(rng.sample(range(n), m))
        sg = [sel[j][0] for j in chosen]
        if rng.random() < 0.15 and len(sg) > 1:
            sg.reverse()
        script = push_num(m) + b''.join(push_only(k) for k in keys_in_script) + push_num(n) + bytes([OP_CHECKMULTISIG])
        stack = [b''] + sg
        if rng.random() < 0.3:
            # the signatures are pushed by the script itself (the usage doc/mock-values.md shows): in a legacy script the
            # FindAndDelete / CONST_SCRIPTCODE rule of the real check then sees them in the scriptCode
            script = bytes([OP_0]) + b''.join(push_only(x) for x in sg) + script
            stack = []
            pat = 'multisig-sigs-in-script'
    tx = None
    if rng.random() < 0.4:
        tx = c02.build_context(rng, sv)
        if sv == TAPSCRIPT:
            tx['tx'].wit[tx['idx']] = [b'\x01']
            tx['fund_spk'] = rsign.spk_p2tr(rb(rng, 32))
            c02.refund(tx)
    weight = rng.choice([400, 400, 50, 49]) if sv == TAPSCRIPT else None
    return dict(id=cid, sv=sv, flags=flags, pairs=pairs, script=script, stack=stack, tx=tx, weight=weight, use=use, pattern=pat, listmode=mode)


def pv_expr(pairs):
    return ','.join('0x%s:0x%s' % (s.hex(), k.hex()) for s, k in pairs)


def cmds_for(c, cid, with_option):
    cmds = ['N ' + cid]
    if c['tx']:
        ctx = c['tx']
        amounts = ','.join(c02.amount_str(ctx['amount'] if j == ctx['idx'] else 0) for j in range(len(ctx['tx'].vin)))
        cmds.append('TX ' + (amounts + ':' + rtx.ser_tx(ctx['tx']).hex()).encode().hex())
        cmds.append('TI %s -1' % rtx.ser_tx(ctx['fund']).hex().encode().hex())
    cmds += ['SV %d' % c['sv'], 'FL %d' % c['flags']]
    if c['sv'] == TAPSCRIPT:
        cmds.append('XD %s none %d' % (sha256(c['script']).hex(), c['weight']))
    if with_option:
        cmds.append('PV ' + pv_expr(c['pairs']).encode().hex())
    cmds.append('SC ' + hexs(c['script']))
    if c['stack']:
        cmds.append('ST ' + items(c['stack']))
    cmds += ['SU', 'CS']
    return cmds


def involves_listed_key(c):
    ks = set(k for s, k in c['pairs'])
    ops = decode_all(c['script']) or []
    return any(d in ks for o, d in ops) or any(x in ks for x in c['stack'])


def judge(c, ev_with, ev_without, part):
    part.evaluations += 1
    wit = dict(id=c['id'], sv=c['sv'], flags=c['flags'], pairs=[[s.hex(), k.hex()] for s, k in c['pairs']], script=c['script'].hex(), stack=[x.hex() for x in c['stack']], use=c['use'],
               pattern=c['pattern'], listmode=c['listmode'], tx=bool(c['tx']), weight=c['weight'])
    e1 = parse_events(ev_with)
    e0 = parse_events(ev_without)
    if any(k == 'CRASH' for k, e in e1 + e0):
        return
    pv = [e for k, e in e1 if k == 'PV']
    if not pv or pv[0][1] != '1':
        part.violation('valid-pair-list-rejected', wit)
        return
    s1 = [e for k, e in e1 if k == 'S']
    s0 = [e for k, e in e0 if k == 'S']
    part.count('cases', '%s/%s/%s/%s' % (SVN[c['sv']], c['pattern'], c['use'], c['listmode']))
    if not involves_listed_key(c):
        # non-interference: identical traces
        a = [(e.ret, e.err if not e.ret else None, e.exc, e.state()) for e in s1]
        b = [(e.ret, e.err if not e.ret else None, e.exc, e.state()) for e in s0]
        if a != b:
            part.violation('option-changes-script-without-listed-key', wit)
        else:
            part.count('verdicts', 'non-interference:identical')
            part.nontrivial.add(nt_hash('ni', c['script'], tuple(c['stack']), c['flags'], c['sv']))
        return
    checker = None
    if c['tx']:
        ctx = c['tx']
        spent = [(ctx['amount'], ctx['fund_spk'])] if ctx['nin'] == 1 else None
        checker = TxChecker(ctx['tx'], ctx['idx'], ctx['amount'], spent, leaf_hash=sha256(c['script']) if c['sv'] == TAPSCRIPT else None)
    verdicts = []
    for mode in ('normal', 'fail'):
        sess = Session(c['script'], c['stack'], c['flags'], c['sv'], checker=checker, weight=c['weight'], mock=set(c['pairs']), mock_mode=mode)
        if checker:
            checker.last_digest = None
        v, info = compare_session(s1, sess)
        verdicts.append(v)
        if v is None:
            break
    if all(v is not None for v in verdicts):
        wit['verdicts'] = verdicts
        key = verdicts[0].split(':')[0]
        part.violation('%s:%s:%s' % (c['listmode'] if c['listmode'] != 'distinct' else 'pairs', c['use'], key), wit)
        return
    part.count('verdicts', 'mock-semantics:agree')
    part.nontrivial.add(nt_hash('mock', c['script'], tuple(c['stack']), tuple(c['pairs']), c['flags'], c['sv']))
    part.sample(dict(sv=SVN[c['sv']], pattern=c['pattern'], use=c['use'], pairs=len(c['pairs']), listmode=c['listmode'], script=c['script'].hex()[:100]), limit=2)


def worker(job):
    bindir, idx, n = job
    rng = sub_rng(PROP, idx)
    part = Partial()
    wd = scratch('c11')
    try:
        cases = [make_case(rng, 'p%d.%d' % (idx, i)) for i in range(n)]
        hc = []
        for c in cases:
            hc.append((c['id'] + '+', cmds_for(c, c['id'] + '+', True)))
            hc.append((c['id'] + '-', cmds_for(c, c['id'] + '-', False)))
        events, crashes, hangs = run_harness_cases(bindir, hc, wd)
        by = {c['id']: c for c in cases}
        for cr in crashes:
            c = by.get(cr.case_id[:-1])
            part.violation('crash:' + cr.key, dict(id=cr.case_id, script=c['script'].hex() if c else None, pairs=[[s.hex(), k.hex()] for s, k in c['pairs']] if c else None, log=cr.log[-1500:]))
        for c in cases:
            judge(c, events.get(c['id'] + '+', []), events.get(c['id'] + '-', []), part)
    finally:
        cleanup_scratch(wd)
    return part.dump()


def binary_worker(job):
    bindir, idx, n = job
    rng = sub_rng(PROP, 'bin', idx)
    part = Partial()
    wd = scratch('c11b')
    btcdeb = os.path.join(bindir, 'btcdeb')
    try:
        for i in range(n):
            c = make_case(rng, 'b%d.%d' % (idx, i))
            if c['sv'] != BASE or c['tx']:
                continue
            args = ['--pretend-valid=' + pv_expr(c['pairs']), '0x' + c['script'].hex()] + ['0x' + x.hex() for x in c['stack']]
            if c['flags'] != STANDARD:
                from checks.c03 import flagstr
                fs = flagstr(c['flags'])
                if fs:
                    args.insert(0, '--modify-flags=' + fs)
            r = proc.run([btcdeb] + args, wd, mode='ptyin', timeout=30)
            part.evaluations += 1
            wit = dict(pairs=[[s.hex(), k.hex()] for s, k in c['pairs']], script=c['script'].hex(), stack=[x.hex() for x in c['stack']], use=c['use'], listmode=c['listmode'], run=r.brief())
            if r.abnormal:
                part.violation('btcdeb:' + r.crash_key('btcdeb'), wit)
                continue
            outs = set()
            for mode in ('normal', 'fail'):
                sess = Session(c['script'], c['stack'], c['flags'], BASE, mock=set(c['pairs']), mock_mode=mode)
                res = None
                while not sess.done:
                    rr = sess.step()
                    if rr[0] == 'fail':
                        res = ('fail',)
                        break
                outs.add(res or ('ok', ''.join(x.hex() + '\n' for x in sess.stack)))
            got = ('ok', r.stdout.decode('latin1')) if r.rc == 0 else ('fail',)
            if got not in outs:
                part.violation('%s:%s:binary-result-differs' % (c['listmode'] if c['listmode'] != 'distinct' else 'pairs', c['use']), wit)
            else:
                part.count('binary', 'agree')
                part.nontrivial.add(nt_hash('bin', c['script'], tuple(c['pairs'])))
        # malformed pair lists
        for bad in ['0x1234', '0x12,0x34', '0x11:0x22:0x33', '0x11:0x22,0x33', 'abc', '0x11:0x22,0x33:0x44:0x55',
                    '0x11:0x22,', ',0x11:0x22', '0x11:0x22,,0x33:0x44', ',', '0x11:0x22,0x33:0x44,', ',,']:
            r = proc.run([btcdeb, '--pretend-valid=' + bad, 'OP_1'], wd, mode='ptyin', timeout=30)
            part.evaluations += 1
            if r.abnormal:
                part.violation('malformed-pair-list:' + r.crash_key('btcdeb'), dict(list=bad, run=r.brief()))
            elif r.rc == 0:
                part.violation('malformed-pair-list-accepted', dict(list=bad, run=r.brief()))
            else:
                part.count('binary', 'malformed:rejected')
                part.nontrivial.add(nt_hash('bad', bad))
        # an element with an empty half ("sig:" = the pair (sig, empty key), ":key" = (empty signature, key)): whichever way it is read,
        # it is either refused or honoured - never silently dropped
        for j in range(6):
            sig = rb(rng, rng.choice([1, 8, 71]))
            lst = rng.choice(['0x%s:', '0x11:0x22,0x%s:', '0x%s:,0x11:0x22']) % sig.hex()
            script = bytes([OP_0, OP_CHECKSIG])
            r = proc.run([btcdeb, '--pretend-valid=' + lst, '0x' + script.hex(), '0x' + sig.hex()], wd, mode='ptyin', timeout=30)
            part.evaluations += 1
            wit = dict(list=lst, script=script.hex(), run=r.brief())
            if r.abnormal:
                part.violation('half-empty-pair:' + r.crash_key('btcdeb'), wit)
            elif b'parse error' in r.stderr and r.rc != 0:
                part.count('binary', 'half-empty-pair:refused')
                part.nontrivial.add(nt_hash('half', lst))
            elif r.rc == 0 and r.stdout.decode('latin1') == '01\n':
                part.count('binary', 'half-empty-pair:honoured')
                part.nontrivial.add(nt_hash('half', lst))
            else:
                part.violation('half-empty-pair-neither-refused-nor-honoured', wit)
    finally:
        cleanup_scratch(wd)
    return part.dump()


def main():
    ap = argparse.ArgumentParser()
    ap.add_argument('--tier', default=os.environ.get('VERIF_TIER', 'quick'))
    ap.add_argument('--replay')
    a = ap.parse_args()
    bindir = vbuild.build('asan')
    rep = Reporter(PROP, a.tier)
    if a.replay:
        d = json.load(open(a.replay))
        for w in d['witnesses']:
            print(json.dumps(w, indent=1)[:3000])
        return 0
    th = a.tier == 'thorough'
    for r in parallel(worker, [(bindir, i, 1000 if not th else 25000) for i in range(16)]):
        rep.merge(r)
    for r in parallel(binary_worker, [(bindir, i, 60 if not th else 1200) for i in range(16)]):
        rep.merge(r)
    return rep.finish(
        rule='pair lists of 1..6 pairs of arbitrary byte strings (incl. the same signature listed for two keys and the same key with two signatures); scripts over CHECKSIG / CHECKSIGVERIFY / CHECKMULTISIG / CHECKSIGADD checking '
             'listed pairs, a wrong signature for a listed key, a listed signature for another key, unlisted pairs and mixtures; with and without a transaction; base / v0 / tapscript (incl. budgets 49/50); every case run with and without the option; '
             'a sample through the real binary plus malformed lists. non-trivial = distinct case whose trace matched the mock semantics, or whose with/without traces were identical (non-interference)',
        assumptions=['a signature other than S offered for a listed key P: normal evaluation and plain failure are both accepted (neither is "accepted on the strength of the option")',
                     'malformed = an element without a colon or with two colons, an empty element (leading, trailing or doubled comma, empty list); an element with one empty half ("sig:") must be refused or honoured as the pair with the empty byte string'],
        min_events=300)


if __name__ == '__main__':
    main_wrapper(main)
