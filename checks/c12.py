"""C12 — the script listing and position marker show exactly what executes next.

Events : scripted interactive sessions of the real btcdeb binary: `print` (all lines and the ' -> ' line), the
         '#NNNN op' echo after step/rewind, and `vdump` (the operation ACTUALLY executed by the last step, sequence
         number, line count, script, commitment index).
Oracle : the reference decodes the byte strings that will run, in execution order, with section headers
         (scriptPubKey, P2SH script) and one entry per taproot commitment step; at every prefix of steps (and rewinds):
         listing = expected decoding; the marked line is the line of the operation the next `step` really executes
         (checked against vdump); after the last operation nothing is marked.
"""
import sys, os, argparse, json, re
sys.path.insert(0, os.path.dirname(os.path.dirname(os.path.abspath(__file__))))
from vf.common import *
from vf import build as vbuild, proc
from ref.script import *
from ref import secp, sign as rsign, tx as rtx, taproot
from checks import gen, c03

PROP = 'C12'
LINE = re.compile(r'^( -> |    )(.*)$')
NUMBERED = re.compile(r'^#(\d{4}) (.*)$')


def op_text_ok(text, op, data):
    """does the listing text denote this operation?"""
    if data:
        return text.lower() == data.hex()
    if op == 0:
        return text in ('0', 'OP_0', 'OP_FALSE')
    if op == OP_1NEGATE:
        return text in ('-1', 'OP_1NEGATE')
    if OP_1 <= op <= OP_16:
        return text in (str(op - 0x50), 'OP_%d' % (op - 0x50), 'OP_TRUE' if op == OP_1 else '')
    name = OPNAME.get(op)
    if name is None:
        return text in ('OP_UNKNOWN', 'OP_INVALIDOPCODE') or text.lower().endswith('%02x' % op)
    alias = {'OP_CHECKLOCKTIMEVERIFY': ('OP_NOP2',), 'OP_CHECKSEQUENCEVERIFY': ('OP_NOP3',)}.get(name, ())
    if op <= OP_PUSHDATA4 and not data:
        # an empty push through OP_PUSHDATAn
        return text in (name, '0', '')
    return text == name or text in alias or text == name[3:]


def expected_entries(sess):
    """list of entries in execution order: ('commit',) | ('op', opcode, data) | ('header', name)"""
    out = []
    for _ in range(sess.get('commit', 0)):
        out.append(('commit',))
    first = True
    for name, script in sess['scripts']:
        if not first:
            out.append(('header', name))
        first = False
        ops, tail = decode_with_tail(script)
        for o, d in ops:
            out.append(('op', o, d))
        if tail:
            # the rest of a script that cannot be decoded (a push reaching beyond the end) is still what the interpreter reads next - and
            # fails on: it is part of "the bytes that will be executed" and has a line of its own
            out.append(('tail', tail))
    return out


def decode_with_tail(script):
    ops, pc = [], 0
    while pc < len(script):
        r = get_op(script, pc)
        if r is None:
            return ops, script[pc:]
        o, d, pc = r
        ops.append((o, d))
    return ops, b''


def parse_print(text):
    lines = []
    for ln in text.split('\n'):
        if ln.startswith('btcdeb> ') or ln.strip() == '':
            continue
        m = LINE.match(ln)
        if not m:
            continue
        marked = m.group(1) == ' -> '
        body = m.group(2)
        n = NUMBERED.match(body)
        lines.append(dict(marked=marked, number=int(n.group(1)) if n else None, text=n.group(2) if n else body))
    return lines


def parse_table(text):
    """left column (script still to be executed) of the script|stack table printed at start-up and after step / rewind"""
    rows = None
    for ln in text.split('\n'):
        if rows is None:
            if re.match(r'^-+\+-+\s*$', ln):
                rows = []
            continue
        if '|' not in ln:
            break
        left = ln.rsplit('|', 1)[0].strip()
        if left:
            rows.append(left)
    return rows


def table_matches(rows, exp, pos):
    """the table lists what is still to be executed: the operations (and commitment steps) from the current one on, in order;
    section header lines are presentation and ignored"""
    got = [r for r in rows if not r.startswith('<<<')]
    want = [e for e in exp[pos:] if e[0] != 'header']
    if len(got) != len(want):
        return 'table-length-differs (%d rows, %d operations pending)' % (len(got), len(want))
    for r, e in zip(got, want):
        if e[0] == 'op':
            if r.endswith('...') and e[2] is not None and len(r) >= 40:
                # the table abbreviates long pushes to its column width (the `print` listing shows them in full): the shown part must be a prefix
                if not e[2].hex().startswith(r[:-3]):
                    return 'table-row-is-not-a-prefix-of-the-decoding: %s' % r[:60]
            elif not op_text_ok(r, e[1], e[2]):
                return 'table-row-is-not-the-decoding: %s' % r[:60]
        elif e[0] == 'tail':
            if e[1].hex() not in r.lower():
                return 'table-row-is-not-the-undecodable-rest: %s' % r[:60]
        elif not r.lower().startswith(('branch', 'tweak', 'checktaptweak')):
            return 'table-row-is-not-a-commitment-step: %s' % r[:60]
    return None


def build_sessions(rng, n):
    S = []
    for i in range(n):
        r = rng.random()
        if r < 0.35:
            fl = STANDARD
            st = gen.rnd_stack(rng)[:4]
            s = gen.strip_sigops(gen.gen_deep(rng, BASE, fl, rng.choice([1, 3, 6, 12, 25]), st, fail_keep=0.0))
            if rng.random() < 0.15:
                s += push_only(bytes(rng.randrange(256) for _ in range(rng.choice([76, 255, 256, 510, 520])))) + bytes([OP_DROP])
            if not s:
                s = bytes([OP_1])
            S.append(dict(kind='plain', args=['0x' + s.hex()] + ['0x' + x.hex() for x in st], scripts=[('script', s)]))
        elif r < 0.45:
            inner = gen.strip_sigops(gen.gen_deep(rng, BASE, STANDARD, rng.choice([1, 3, 8]), [], fail_keep=0.0)) or bytes([OP_1])
            inner = inner[:500]
            tmpl = bytes([OP_HASH160, 20]) + hash160(inner) + bytes([OP_EQUAL])
            if rng.random() < 0.3:
                # with the P2SH rule switched off the template is an ordinary script: nothing follows it
                S.append(dict(kind='p2sh-plain', variant='P2SH-off', args=['--modify-flags=-P2SH', '0x' + tmpl.hex(), '0x' + inner.hex()], scripts=[('script', tmpl)]))
            else:
                S.append(dict(kind='p2sh-plain', args=['0x' + tmpl.hex(), '0x' + inner.hex()], scripts=[('script', tmpl), ('P2SH script', inner)]))
        elif r < 0.56 and r >= 0.5:
            # sessions in which a step FAILS (plain script error, thrown number error, refused switch to an oversized scriptPubKey):
            # a refused step executes nothing, so listing and marker must stay where they are, also across a following rewind
            k = rng.choice(['plain', 'throw', 'throw-minimal', 'seam'])
            pre = rng.choice([bytes([OP_1, OP_2, OP_ADD]), bytes([OP_1]), bytes([OP_5, OP_DUP, OP_DROP, OP_NOP]), bytes([OP_1, OP_IF, OP_2, OP_ENDIF])])
            if k == 'plain':
                s = pre + rng.choice([bytes([OP_0, OP_VERIFY]), bytes([OP_DROP, OP_DROP, OP_DROP]), bytes([OP_RETURN]), bytes([OP_FROMALTSTACK])]) + bytes([OP_5])
                okn = len(decode_all(pre)) + (1 if s[len(pre)] == OP_0 else 0)
                while True:     # number of operations that succeed before the failing one (by the reference)
                    it = Interp(s, [], STANDARD, BASE)
                    okn = 0
                    try:
                        while not it.at_end():
                            it.step()
                            okn += 1
                    except (ScriptFail, NumErr):
                        pass
                    break
                S.append(dict(kind='failing-step/plain', args=['0x' + s.hex()], scripts=[('script', s)], fail_at=okn))
            elif k in ('throw', 'throw-minimal'):
                bad = push_only(bytes([1, 2, 3, 4, 5])) + bytes([OP_1ADD]) if k == 'throw' else push_only(bytes([5, 0])) + bytes([OP_NEGATE])
                s = pre + bad + bytes([OP_ADD])
                S.append(dict(kind='failing-step/' + k, args=['0x' + s.hex()], scripts=[('script', s)], fail_at=len(decode_all(pre)) + 1))
            else:
                ssig = pre if rng.random() < 0.5 else bytes([OP_1])
                if rng.random() < 0.5:
                    ssig += bytes([OP_5, OP_TOALTSTACK])       # (something on the alt stack when the switch is refused)
                spk = b''.join(push_only(bytes([0x61]) * 520) for _ in range(20))[:10001] + bytes([OP_NOP]) * 3
                if len(spk) <= 10000 or decode_all(spk) is None:
                    spk = b''.join(push_only(bytes([0x61]) * 520) for _ in range(19)) + bytes([OP_NOP]) * 200
                fund = rsign.funding_tx(rng, [(10000, spk)])
                tx = rsign.spending_tx(rng, [(rtx.txid(fund), 0)], nout=1, version=2, locktime=0, sequences=[0xffffffff])
                tx.vin[0][2] = ssig
                tx.wit = None
                S.append(dict(kind='failing-step/seam', args=['--tx=' + rtx.ser_tx(tx).hex(), '--txin=' + rtx.ser_tx(fund).hex()],
                              scripts=[('scriptSig', ssig), ('scriptPubKey', spk)], commit=0, fail_at=len(decode_all(ssig))))
        elif r < 0.5 and rng.random() < 0.4:
            # a script taken from a transaction that ends in the middle of a push: legal bytes, executed up to there, then BAD_OPCODE
            tail = rng.choice([bytes([2, 0xaa]), bytes([0x4c]), bytes([0x4d, 0xff]), bytes([0x4e, 1, 0, 0]), bytes([5, 1, 2]), bytes([0x4c, 200, 1, 2, 3]), bytes([75])])
            head = rng.choice([bytes([OP_1]), bytes([OP_1, OP_2, OP_ADD]), bytes([OP_NOP, OP_7]), b''])
            where = rng.choice(['scriptPubKey', 'scriptPubKey', 'redeem', 'scriptSig'])
            if where == 'scriptPubKey':
                ssig, spk = bytes([OP_1]), head + tail
                scripts = [('scriptSig', ssig), ('scriptPubKey', spk)]
            elif where == 'redeem':
                red = (head or bytes([OP_1])) + tail
                ssig, spk = push_only(red), bytes([OP_HASH160, 20]) + hash160(red) + bytes([OP_EQUAL])
                scripts = [('scriptSig', ssig), ('scriptPubKey', spk), ('P2SH script', red)]
            else:
                ssig, spk = (head or bytes([OP_1])) + tail, bytes([OP_1])
                scripts = [('scriptSig', ssig), ('scriptPubKey', spk)]
            fund = rsign.funding_tx(rng, [(10000, spk)])
            tx = rsign.spending_tx(rng, [(rtx.txid(fund), 0)], nout=1, version=2, locktime=0, sequences=[0xffffffff])
            tx.vin[0][2] = ssig
            tx.wit = None
            sess = dict(kind='undecodable-tail/' + where, args=['--tx=' + rtx.ser_tx(tx).hex(), '--txin=' + rtx.ser_tx(fund).hex()], scripts=scripts, commit=0)
            sess['fail_at'] = [j for j, e in enumerate(expected_entries(sess)) if e[0] == 'tail'][0]
            S.append(sess)
        elif r < 0.5:
            # a legacy P2SH spend whose redeem script is EMPTY (legal: nothing more is executed), after other pushes in the scriptSig
            x = rng.choice([bytes([0x51]), bytes([1, 2, 3]), bytes([rng.randrange(17, 0x80)]), bytes(rng.randrange(1, 256) for _ in range(rng.choice([2, 4, 20])))])   # (minimal pushes of true values)
            ssig = push_only(x) + bytes([OP_0])
            spk = bytes([OP_HASH160, 20]) + hash160(b'') + bytes([OP_EQUAL])
            fund = rsign.funding_tx(rng, [(10000, spk)])
            tx = rsign.spending_tx(rng, [(rtx.txid(fund), 0)], nout=1, version=2, locktime=0, sequences=[0xffffffff])
            tx.vin[0][2] = ssig
            tx.wit = None
            if rng.random() < 0.4:
                # the redeem script is whatever the LAST operation of the scriptSig leaves on the stack - here OP_1NEGATE leaves 0x81,
                # which as a script is OP_RIGHT (runs with --allow-disabled-opcodes: RIGHT("abc", 1) = "c")
                ssig = push_only(b'abc') + bytes([OP_1, OP_1NEGATE])
                spk = bytes([OP_HASH160, 20]) + hash160(b'\x81') + bytes([OP_EQUAL])
                fund = rsign.funding_tx(rng, [(10000, spk)])
                tx = rsign.spending_tx(rng, [(rtx.txid(fund), 0)], nout=1, version=2, locktime=0, sequences=[0xffffffff])
                tx.vin[0][2] = ssig
                tx.wit = None
                S.append(dict(kind='p2sh-small-int-redeem', args=['-z', '--tx=' + rtx.ser_tx(tx).hex(), '--txin=' + rtx.ser_tx(fund).hex()],
                              scripts=[('scriptSig', ssig), ('scriptPubKey', spk), ('P2SH script', b'\x81')], commit=0))
                continue
            S.append(dict(kind='p2sh-empty-redeem', args=['--tx=' + rtx.ser_tx(tx).hex(), '--txin=' + rtx.ser_tx(fund).hex()],
                          scripts=[('scriptSig', ssig), ('scriptPubKey', spk), ('P2SH script', b'')], commit=0))
        else:
            otype = rng.choice(['p2pk', 'p2pkh', 'multisig', 'p2sh-multisig', 'p2sh-hashlock', 'p2wpkh', 'p2wsh', 'p2sh-p2wpkh', 'p2sh-p2wsh', 'p2tr-key', 'p2tr-script', 'p2tr-script', 'p2tr-script'])
            try:
                sc = c03.build(rng, otype, 'valid')
            except Exception:
                continue
            sc['flags'] = STANDARD
            if not c03.ref_verdict(sc)[0]:
                continue          # only spends that validate: a failing step ends the judged part of a session
            tx, idx = sc['tx'], sc['idx']
            ssig = tx.vin[idx][2]
            wit = tx.wit[idx] if tx.wit else []
            spk = sc['spk']
            commit = 0
            if otype in ('p2pk', 'p2pkh', 'multisig'):
                scripts = [('scriptSig', ssig), ('scriptPubKey', spk)]
            elif otype in ('p2sh-multisig', 'p2sh-hashlock'):
                redeem = decode_all(ssig)[-1][1]
                scripts = [('scriptSig', ssig), ('scriptPubKey', spk), ('P2SH script', redeem)]
            elif otype in ('p2wpkh', 'p2sh-p2wpkh'):
                scripts = [('script', bytes([OP_DUP, OP_HASH160, 20]) + hash160(wit[1]) + bytes([OP_EQUALVERIFY, OP_CHECKSIG]))]
            elif otype in ('p2wsh', 'p2sh-p2wsh'):
                scripts = [('script', wit[-1])]
            elif otype == 'p2tr-key':
                scripts = [('script', push_only(spk[2:]) + bytes([OP_CHECKSIG]))]
            else:
                control, script = wit[-1], wit[-2]
                commit = (len(control) - 33) // 32 + 1
                scripts = [('script', script)]
            if otype in ('p2sh-multisig', 'p2sh-hashlock') and rng.random() < 0.35:
                # P2SH rule off (and with it the rules that presuppose it): scriptSig and scriptPubKey are all there is to run
                S.append(dict(kind=otype, variant='P2SH-off', args=['--modify-flags=-P2SH,-CLEANSTACK,-WITNESS', '--tx=' + rtx.ser_tx(tx).hex(), '--txin=' + rtx.ser_tx(sc['fund']).hex()],
                              scripts=scripts[:2], commit=0))
                continue
            S.append(dict(kind=otype, args=['--tx=' + rtx.ser_tx(tx).hex(), '--txin=' + rtx.ser_tx(sc['fund']).hex()], scripts=scripts, commit=commit))
    return S


def worker(job):
    bindir, idx, n = job
    rng = sub_rng(PROP, idx)
    part = Partial()
    wd = scratch('c12')
    btcdeb = os.path.join(bindir, 'btcdeb')
    try:
        for sess in build_sessions(rng, n):
            exp = expected_entries(sess)
            total = len(exp)
            if total > 260:
                continue
            # command plan: print, then (step, print) to the end with a few rewinds sprinkled in, then print after the end
            cmds = ['print']
            plan = []
            k = 0
            fail_at = sess.get('fail_at')
            if fail_at is not None:
                plan = ['step'] * fail_at + ['step', 'step', 'rewind', 'step', 'step', 'rewind', 'rewind', 'step', 'step', 'step']
                k = total + 1
            while k < total + 1:
                if k > 1 and rng.random() < 0.12:
                    plan.append('rewind')
                    k -= 1
                else:
                    plan.append('step')
                    k += 1
            for p in plan:
                cmds += [p, 'print']
            r, segs = proc.repl_session(btcdeb, sess['args'], cmds, wd, timeout=120)
            part.evaluations += 1
            wit = dict(kind=sess['kind'], args=[a[:300] for a in sess['args']], entries=total, commit_steps=sess.get('commit', 0))
            if r.abnormal:
                part.violation('session:' + r.crash_key('btcdeb'), dict(wit, run=r.brief()))
                continue
            if len(segs) != len(cmds) + 1:
                part.violation('session-ended-early', dict(wit, got=len(segs), want=len(cmds) + 1, tail=getattr(r, 'tail', '')[-300:], stderr=r.stderr.decode('latin1')[-400:]))
                continue
            part.count('sessions', sess['kind'] + ('/' + sess['variant'] if sess.get('variant') else ''))
            # --- listing (from the first print)
            lst = parse_print(segs[1]['out'])
            count = segs[0]['dump']['count']
            bad = None
            if len(lst) != total or count != total:
                bad = 'listing-length-differs'
                wit['listing_lines'] = len(lst)
                wit['reported_count'] = count
            else:
                for j, (e, l) in enumerate(zip(exp, lst)):
                    if e[0] == 'op':
                        if not op_text_ok(l['text'], e[1], e[2]):
                            bad = 'listing-line-is-not-the-decoding'
                            wit['line'] = j
                            wit['text'] = l['text'][:120]
                            wit['expected'] = e[2].hex()[:120] if e[2] else OPNAME.get(e[1], hex(e[1]))
                            break
                        if l['number'] is not None and l['number'] != j:
                            bad = 'listing-line-number-differs'
                            wit['line'] = j
                            break
                    elif e[0] == 'tail':
                        if e[1].hex() not in l['text'].lower():
                            bad = 'undecodable-rest-not-listed'
                            wit['line'] = j
                            wit['text'] = l['text'][:80]
                            break
                    elif e[0] == 'header':
                        if not l['text'].startswith('<<<') or e[1].lower().replace(' ', '') not in l['text'].lower().replace(' ', ''):
                            bad = 'section-header-missing'
                            wit['line'] = j
                            wit['text'] = l['text'][:80]
                            break
                    else:
                        if not l['text'].lower().startswith(('branch', 'tweak', 'checktaptweak')):
                            bad = 'commitment-line-missing'
                            wit['line'] = j
                            wit['text'] = l['text'][:80]
                            break
            if bad:
                part.violation('%s:%s' % (bad, 'tapscript' if sess.get('commit') else sess['kind'] if sess['kind'] in ('plain', 'p2sh-plain') else 'spend'), wit)
                continue
            # --- the script|stack table printed at start-up
            t0 = parse_table(segs[0]['out'])
            if t0 is not None:
                tb = table_matches(t0, exp, 0)
                if tb:
                    wit['detail'] = tb
                    part.violation('table-differs-from-pending-operations:%s' % ('tapscript' if sess.get('commit') else sess['kind'] if sess['kind'] in ('plain', 'p2sh-plain') else 'spend'), wit)
                    continue
                part.count('tables_checked', 'n')
            # --- marker vs. the operation actually executed
            pos = 0            # reference position = number of entries executed
            seg_i = 1
            marker_bad = None
            prev_dump = segs[0]['dump']
            marked = [j for j, l in enumerate(lst) if l['marked']]
            if marked != ([0] if total else []):
                marker_bad = ('initial-marker', marked, 0)
            for p in plan:
                if marker_bad:
                    break
                seg_cmd = segs[seg_i + 1]          # the step / rewind
                seg_prn = segs[seg_i + 2]          # the following print
                seg_i += 2
                d = seg_cmd['dump']
                if p == 'step' and fail_at is not None and pos == fail_at:
                    # the refused step: nothing is executed, nothing may move
                    same = all(d[f] == prev_dump[f] for f in ('seq', 'pc', 'script', 'stack', 'alt', 'done', 'vfsize'))
                    part.count('refused_steps', sess['kind'])
                    if not same:
                        marker_bad = ('refused-step-changes-the-session', pos, [f for f in ('seq', 'pc', 'script', 'stack', 'alt', 'done', 'vfsize') if d[f] != prev_dump[f]])
                        break
                elif p == 'step':
                    if pos < total:
                        e = exp[pos]
                        if e[0] == 'op':
                            # the implementation reports the opcode and push value of the operation it just executed
                            if d['opcode'] != e[1] or bytes.fromhex(d['push']) != e[2]:
                                marker_bad = ('executed-op-differs-from-listing-order', pos, d['opcode'])
                                break
                        pos += 1
                    else:
                        pos = total + 0      # the finishing step executes nothing
                    if d['seq'] != min(pos, total):
                        marker_bad = ('sequence-number-differs', pos, d['seq'])
                        break
                    # echo line after the step: the next operation
                    echo = [l for l in seg_cmd['out'].split('\n') if l.startswith('#') or l.startswith('<<<')]
                    if pos < total:
                        nxt = exp[pos]
                        if not echo:
                            marker_bad = ('no-echo-line', pos, None)
                            break
                        body = NUMBERED.match(echo[-1])
                        text = body.group(2) if body else echo[-1]
                        if nxt[0] == 'op' and not op_text_ok(text, nxt[1], nxt[2]):
                            marker_bad = ('echo-is-not-the-next-operation', pos, text[:60])
                            break
                else:
                    if d['seq'] < prev_dump['seq']:
                        pos -= 1
                    # a refused rewind leaves the position unchanged
                prev_dump = d
                tbl = parse_table(seg_cmd['out'])
                if tbl is not None and not (fail_at is not None and pos == fail_at):
                    tb = table_matches(tbl, exp, pos)
                    if tb:
                        marker_bad = ('table-differs-from-pending-operations', pos, tb)
                        break
                    part.count('tables_checked', 'n')
                lst2 = parse_print(seg_prn['out'])
                marked = [j for j, l in enumerate(lst2) if l['marked']]
                want = [pos] if pos < total else []
                if marked != want:
                    marker_bad = ('marker-on-wrong-line', pos, marked)
                    break
                if len(lst2) != total:
                    marker_bad = ('listing-changes-during-session', pos, len(lst2))
                    break
            if marker_bad:
                wit['detail'] = str(marker_bad)
                wit['plan'] = ''.join('S' if x == 'step' else 'R' for x in plan)
                part.violation('%s:%s' % (marker_bad[0], 'tapscript' if sess.get('commit') else sess['kind'] if sess['kind'] in ('plain', 'p2sh-plain') else 'spend'), wit)
                continue
            part.count('prefixes_checked', 'n', len(plan))
            part.nontrivial.add(nt_hash(tuple(sess['args'])))
            part.sample(dict(kind=sess['kind'], lines=total, commit_steps=sess.get('commit', 0), steps_and_rewinds=len(plan), first_lines=[l['text'][:40] for l in lst[:4]]), limit=2)
    finally:
        cleanup_scratch(wd)
    return part.dump()


def listing_differs(lst, exp):
    if len(lst) != len(exp):
        return 'length %d, expected %d' % (len(lst), len(exp))
    for j, (e, l) in enumerate(zip(exp, lst)):
        if e[0] == 'op' and not op_text_ok(l['text'], e[1], e[2]):
            return 'line %d is %r' % (j, l['text'][:60])
        if e[0] == 'header' and not l['text'].startswith('<<<'):
            return 'line %d is not a section header' % j
    return None


def exec_redeem_worker(job):
    """P2SH spends in which `exec` changes what is on top of the stack when the scriptSig ends - i.e. the redeem script that is going to
    be run (a debugging session that repairs a scriptSig carrying the wrong redeem script).  "At every point of a session" the
    P2SH section of the listing is the decoding of the bytes that WILL be executed: after the exec that is the new script."""
    bindir, idx, n = job
    rng = sub_rng(PROP, 'exec-redeem', idx)
    part = Partial()
    wd = scratch('c12x')
    btcdeb = os.path.join(bindir, 'btcdeb')
    try:
        for i in range(n):
            A = rng.choice([bytes([OP_1]), bytes([OP_1, OP_1, OP_ADD]), bytes([OP_2, OP_DROP, OP_1]), bytes([OP_NOP, OP_1]), push_only(b'\xaa\xbb') + bytes([OP_DROP, OP_1])])
            B = rng.choice([bytes([OP_2, OP_3, OP_ADD, OP_5, OP_EQUAL]), bytes([OP_1]), bytes([OP_7, OP_DUP, OP_EQUALVERIFY, OP_1, OP_1, OP_ADD]), push_only(bytes(range(1, 40))) + bytes([OP_SIZE, OP_NIP]),
                            bytes([OP_1, OP_IF, OP_2, OP_ELSE, OP_3, OP_ENDIF]), bytes([OP_NOP]) * rng.choice([1, 9, 30]) + bytes([OP_1])])
            if A == B:
                continue
            variant = rng.choice(['replace', 'replace', 'add'])
            ssig = (push_only(bytes(rng.randrange(1, 256) for _ in range(rng.choice([2, 5, 20]))) + b'\x01') if rng.random() < 0.5 else b'') + push_only(A)
            spk = bytes([OP_HASH160, 20]) + hash160(B) + bytes([OP_EQUAL])
            fund = rsign.funding_tx(rng, [(10000, spk)])
            tx = rsign.spending_tx(rng, [(rtx.txid(fund), 0)], nout=1, version=2, locktime=0, sequences=[0xffffffff])
            tx.vin[0][2] = ssig
            tx.wit = None
            sessA = dict(scripts=[('scriptSig', ssig), ('scriptPubKey', spk), ('P2SH script', A)], commit=0)
            sessB = dict(scripts=[('scriptSig', ssig), ('scriptPubKey', spk), ('P2SH script', B)], commit=0)
            expA, expB = expected_entries(sessA), expected_entries(sessB)
            k = len(decode_all(ssig))
            hdr = [j for j, e in enumerate(expB) if e[0] == 'header'][1]      # line of the P2SH section header
            execcmd = 'exec ' + ('OP_DROP ' if variant == 'replace' else '') + '0x' + B.hex()
            cmds = ['print'] + ['step', 'print'] * k + [execcmd, 'print'] + ['step', 'print'] * (len(expB) - k + 1)
            args = ['--modify-flags=-CLEANSTACK', '--tx=' + rtx.ser_tx(tx).hex(), '--txin=' + rtx.ser_tx(fund).hex()]
            r, segs = proc.repl_session(btcdeb, args, cmds, wd, timeout=120)
            part.evaluations += 1
            wit = dict(kind='p2sh-exec-changes-redeem-script/' + variant, args=[a[:300] for a in args], scriptsig=ssig.hex(), redeem_in_scriptsig=A.hex(), redeem_after_exec=B.hex(), exec=execcmd)
            if r.abnormal:
                part.violation('session:' + r.crash_key('btcdeb'), dict(wit, run=r.brief()))
                continue
            if len(segs) != len(cmds) + 1:
                part.violation('session-ended-early', dict(wit, got=len(segs), want=len(cmds) + 1))
                continue
            part.count('sessions', 'p2sh-exec-changes-redeem-script/' + variant)
            pos = 0
            after = False
            found = {}
            for ci, c in enumerate(cmds):
                seg = segs[ci + 1]
                if c == 'step':
                    exp = expB if after else expA
                    d = seg['dump']
                    if pos < len(exp):
                        e = exp[pos]
                        if e[0] == 'op' and after and (d['opcode'] != e[1] or bytes.fromhex(d['push']) != e[2]):
                            found.setdefault('executed-op-is-not-the-one-of-the-new-redeem-script', 'step %d executed opcode %d' % (pos, d['opcode']))
                        pos += 1
                    tbl = parse_table(seg['out'])
                    if tbl is not None and after:
                        tb = table_matches(tbl, exp, min(pos, len(exp)))
                        if tb:
                            found.setdefault('table-p2sh-section-stale-after-exec:' + ('before-the-switch' if pos <= hdr else 'after-the-switch'), tb)
                elif c.startswith('exec'):
                    after = True
                    tbl = parse_table(seg['out'])
                    if tbl is not None:
                        tb = table_matches(tbl, expB, pos)
                        if tb:
                            found.setdefault('table-p2sh-section-stale-after-exec:before-the-switch', tb)
                else:
                    exp = expB if after else expA
                    lst = parse_print(seg['out'])
                    where = 'before-the-switch' if pos <= hdr else 'after-the-switch'
                    dif = listing_differs(lst, exp)
                    if dif:
                        found.setdefault(('p2sh-section-stale-after-exec:' + where) if after else 'listing-differs-before-exec', dif)
                    marked = [j for j, l in enumerate(lst) if l['marked']]
                    if marked != ([pos] if pos < len(exp) else []) and not dif:
                        found.setdefault(('marker-on-wrong-line-after-exec:' + where) if after else 'marker-on-wrong-line', 'pos %d marked %s' % (pos, marked))
            for key, detail in found.items():
                part.violation(key, dict(wit, detail=detail))
            if not found:
                part.count('prefixes_checked', 'n', len(cmds))
                part.nontrivial.add(nt_hash('execredeem', ssig, A, B, variant))
    finally:
        cleanup_scratch(wd)
    return part.dump()


def main():
    ap = argparse.ArgumentParser()
    ap.add_argument('--tier', default=os.environ.get('VERIF_TIER', 'quick'))
    ap.add_argument('--replay')
    a = ap.parse_args()
    bindir = vbuild.build('asan')
    rep = Reporter(PROP, a.tier)
    if a.replay:
        d = json.load(open(a.replay))
        for w in d['witnesses']:
            print(json.dumps(w, indent=1)[:3000])
        return 0
    n = 80 if a.tier == 'quick' else 2000
    for r in parallel(worker, [(bindir, i, n) for i in range(16)]):
        rep.merge(r)
    for r in parallel(exec_redeem_worker, [(bindir, i, 4 if a.tier == 'quick' else 80) for i in range(16)]):
        rep.merge(r)
    pc = rep.tables.get('prefixes_checked', {}).get('n', 0)
    return rep.finish(
        rule='interactive sessions of the real binary through the scripted REPL: plain scripts (incl. pushes of 76..520 bytes), plain P2SH-template scripts, and --tx/--txin spends of every output type '
             '(scriptSig + scriptPubKey + P2SH sections, P2WPKH preamble, P2WSH, taproot key path, tapscript with path lengths 0..3 and 128); in each session `print` after every command of a plan that steps to the end with rewinds sprinkled in; plus P2SH spends in which `exec` replaces the redeem script on the stack before the scriptPubKey takes over (listing, table and marker must follow); '
             'non-trivial = distinct session whose listing equalled the reference decoding and whose marker matched the executed operation at every prefix',
        assumptions=['opcode spelling is not prescribed: "0"/"OP_0", "1".."16", "-1" and OP_NOP2/3 aliases are accepted', 'vdump (hook) reports the opcode and push value of the operation the implementation executed last'],
        extra={'prefixes_checked': pc}, min_events=100, observed=pc)


if __name__ == '__main__':
    main_wrapper(main)
