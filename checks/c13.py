"""C13 — transaction decoding is lossless and identifiers are correct.

Events : native harness: parse_tx(hex) -> all fields, txid, wtxid, both re-encodings, or the diagnostic /
         exception; Instance::parse_transaction(amounts:hex) -> satoshi amounts; real binary: btcdeb --tx=<malformed>.
Oracle : ref.tx (independent codec): round trip, field equality, txid = dSHA256 of the stripped encoding,
         amounts = exact decimal x 10^8; truncations, flag-byte corruptions, non-canonical compact sizes, counts
         beyond the data and trailing bytes must be rejected with a diagnostic.
"""
import sys, os, argparse, json, struct
from decimal import Decimal
sys.path.insert(0, os.path.dirname(os.path.dirname(os.path.abspath(__file__))))
from vf.common import *
from vf import build as vbuild, proc
from ref import tx as rtx, secp, taproot, sign as rsign
from ref.script import OP_1
import re

PROP = 'C13'


def rb(rng, n):
    return bytes(rng.randrange(256) for _ in range(n))


def gen_tx(rng):
    nin = rng.choice([1, 1, 1, 2, 3, 5, 0])
    nout = rng.choice([0, 1, 1, 2, 3, 6]) if nin else 0
    lens = [0, 0, 1, 25, 107, 252, 253, 254, 300]
    if rng.random() < 0.03:
        lens += [65535, 65536, 70000]
    vin = [[rb(rng, 32), rng.choice([0, 1, 0xffffffff, rng.randrange(2 ** 32)]), rb(rng, rng.choice(lens)), rng.choice([0, 1, 0xfffffffe, 0xffffffff, rng.randrange(2 ** 32)])] for _ in range(nin)]
    vout = [(rng.choice([0, 1, 546, 21 * 10 ** 14, 2 ** 63 - 1, -1, rng.randrange(2 ** 50)]), rb(rng, rng.choice(lens))) for _ in range(nout)]
    version = rng.choice([1, 2, 0, -1, 2 ** 31 - 1, -2 ** 31, rng.randrange(-2 ** 31, 2 ** 31)])
    lock = rng.choice([0, 1, 499999999, 500000000, 0xffffffff, rng.randrange(2 ** 32)])
    wit = None
    r = rng.random()
    if nin and r < 0.5:
        wit = []
        for i in range(nin):
            k = rng.choice([0, 0, 1, 2, 3]) if r < 0.35 else rng.choice([1, 2])
            wit.append([rb(rng, rng.choice([0, 1, 32, 64, 72, 252, 253, 520, 600])) for _ in range(k)])
        if not any(wit):
            wit = None
    return rtx.make_tx(version, vin, vout, lock, wit)


BOUNDARY_VALUES = (0, 1, 252, 253, 254, 255, 256, 0xfffe, 0xffff, 0x10000, 0x10001)


def boundary_cases(values=BOUNDARY_VALUES):
    """Deterministic: every kind of length / count field at every compact-size encoding boundary (and its neighbours), once in its
    canonical form (must be accepted and round-trip) and once in every longer-than-necessary form (must be rejected).  The random
    generator leaves transactions above 5,000 bytes unmutated, so the 65535 / 65536 boundary is driven here."""
    out = []
    h32 = bytes(range(32))
    for v in values:
        shapes = {
            'scriptsig-len': rtx.make_tx(2, [[h32, 1, b'\x51' * v, 0xfffffffe]], [(1000, b'')], 0, None),
            'scriptpubkey-len': rtx.make_tx(2, [[h32, 1, b'', 0xfffffffe]], [(1000, b'\x6a' * v)], 0, None),
            'witness-item-len': rtx.make_tx(2, [[h32, 1, b'', 0xfffffffe]], [(1000, b'')], 0, [[b'\x07' * v, b'\x02\x03']]),
        }
        if v >= 2:
            shapes['witness-item-count'] = rtx.make_tx(2, [[h32, 3, b'', 0]], [(5, b'')], 0, [[b''] * v])
            shapes['output-count'] = rtx.make_tx(1, [[h32, 3, b'', 0]], [(7, b'')] * v, 0, None)
        if 2 <= v <= 256:
            shapes['input-count'] = rtx.make_tx(1, [[h32, 3, b'', 0]] * v, [(7, b'')], 0, None)
        for field, t in sorted(shapes.items()):
            raw = rtx.ser_tx(t)
            out.append(('boundary-valid/%s-%d' % (field, v), raw.hex(), raw))
            vals = []
            orig_cs = rtx.ser_cs

            def rec(x):
                vals.append(x)
                return orig_cs(x)
            rtx.ser_cs = rec
            try:
                rtx.ser_tx(t)
            finally:
                rtx.ser_cs = orig_cs
            ks = [k for k, x in enumerate(vals) if x == v]
            if len(ks) != 1 and v > 3:
                continue
            k = ks[0] if v > 3 else ks[-1]
            forms = []
            if v < 253:
                forms.append(b'\xfd' + struct.pack('<H', v))
            if v <= 0xffff:
                forms.append(b'\xfe' + struct.pack('<I', v))
            forms.append(b'\xff' + struct.pack('<Q', v))
            for form in forms:
                cnt = [0]

                def sub(x, k=k, form=form, cnt=cnt):
                    i = cnt[0]
                    cnt[0] += 1
                    return form if i == k else orig_cs(x)
                rtx.ser_cs = sub
                try:
                    m = rtx.ser_tx(t)
                finally:
                    rtx.ser_cs = orig_cs
                out.append(('non-canonical-size/boundary-%s-%d-as-%02x' % (field, v, form[0]), m.hex(), m))
    return out


def ref_parse(raw):
    """-> Tx or None (rejected); strict: the whole input must be consumed"""
    try:
        t = rtx.parse_tx(raw)
    except (ValueError, struct.error):
        return None
    if t.rest:
        return None
    # Core refuses compact sizes above MAX_SIZE (0x02000000) -- unreachable here; script lengths are bounded by the data
    return t


def fields(t):
    ins = ';'.join('%s:%d:%s:%d:%s' % (h.hex(), n, hexs(ss), seq, items((t.wit[i] if t.wit else []) or [])) for i, (h, n, ss, seq) in enumerate(t.vin)) or '.'
    outs = ';'.join('%d:%s' % (v, hexs(s)) for v, s in t.vout) or '.'
    return ins, outs


def spaced(rng, h):
    """hex with whitespace between bytes (allowed by the hex reader)"""
    out = ''
    for i in range(0, len(h), 2):
        out += h[i:i + 2]
        if rng.random() < 0.1:
            out += rng.choice([' ', '  ', '\n', '\t'])
    return out


def judge_parse(raw_hex_text, raw, lines, part, kind):
    part.evaluations += 1
    wit = dict(kind=kind, hex=raw.hex()[:600], length=len(raw))
    if any(l.startswith('CRASH') for l in lines):
        return
    ok = [l.split(' ') for l in lines if l.startswith('TXOK ')]
    fail = [l for l in lines if l.startswith('TXFAIL')]
    want = ref_parse(raw)
    part.count('kinds', kind + (':accepted' if want else ':rejected'))
    if want is None:
        if ok:
            wit['impl_reencoding'] = ok[0][8][:200]
            part.violation('accepts-malformed:' + kind.split('/')[0], wit)
        else:
            # a diagnostic must exist: exception text or a message on stderr
            diag = any(l.startswith('O ') for l in lines) or (fail and fail[0].split(' ')[1] != '-')
            if not diag:
                part.violation('rejected-without-diagnostic', wit)
            else:
                part.nontrivial.add(nt_hash('rej', raw))
        return
    if not ok:
        wit['impl'] = fail[:1]
        part.violation('rejects-wellformed:' + kind.split('/')[0], wit)
        return
    t = ok[0]
    ins, outs = fields(want)
    exp = [str(want.version), str(want.locktime), str(len(want.vin)), str(len(want.vout)), '1' if (want.wit and any(want.wit)) else '0',
           rtx.txid(want).hex(), rtx.wtxid(want).hex(), rtx.ser_tx(want, True).hex(), rtx.ser_tx(want, False).hex(), ins, outs]
    names = ['version', 'locktime', 'n_inputs', 'n_outputs', 'has_witness', 'txid', 'wtxid', 'reencoding', 'stripped_encoding', 'inputs', 'outputs']
    for nm, a, b in zip(names, exp, t[1:12]):
        if a != b:
            wit['field'] = nm
            wit['want'] = a[:300]
            wit['got'] = b[:300]
            part.violation('field-differs:' + nm, wit)
            return
    if rtx.ser_tx(want, True) != raw:
        part.inconc('oracle-roundtrip')
        return
    part.nontrivial.add(nt_hash('ok', raw))
    part.sample(dict(kind=kind, inputs=len(want.vin), outputs=len(want.vout), witness=bool(want.wit), length=len(raw), txid=rtx.txid(want)[::-1].hex()), limit=2)


def worker(job):
    bindir, idx, n = job
    rng = sub_rng(PROP, idx)
    part = Partial()
    wd = scratch('c13')
    try:
        # (in chunks: the cases of 15,000 transactions held at once are gigabytes per worker)
        for chunk_start in range(0, n, 400):
            cases = []   # (kind, text, raw bytes)
            if chunk_start == 0:
                cases += boundary_cases(BOUNDARY_VALUES[idx::16])     # spread over the workers
            for i in range(chunk_start, min(n, chunk_start + 400)):
                t = gen_tx(rng)
                raw = rtx.ser_tx(t)
                if ref_parse(raw) is None:
                    continue      # e.g. zero inputs with outputs: not expressible unambiguously
                h = raw.hex()
                cases.append(('valid', h if rng.random() < 0.8 else spaced(rng, h), raw))
                if len(raw) > 5000:
                    continue
                # truncations: all of them for small transactions, a sample otherwise
                cuts = range(len(raw)) if len(raw) < 400 and i % 6 == 0 else sorted(set(rng.randrange(len(raw)) for _ in range(12)) | {len(raw) - 1, len(raw) - 4, 4, 5, 6})
                for c in cuts:
                    if 0 <= c < len(raw):
                        cases.append(('truncation', raw[:c].hex(), raw[:c]))
                # trailing bytes
                extra = rb(rng, rng.choice([1, 1, 4, 40]))
                cases.append(('trailing-bytes', (raw + extra).hex(), raw + extra))
                # flag byte corruptions (only meaningful for the extended format)
                if raw[4] == 0:
                    for fb in (0, 2, 3, 0x80, 0xff):
                        m = raw[:5] + bytes([fb]) + raw[6:]
                        cases.append(('flag-byte', m.hex(), m))
                else:
                    m = raw[:4] + b'\x00\x01' + raw[4:]
                    cases.append(('flag-byte/marker-without-witness', m.hex(), m))
                    m = raw[:4] + b'\x00\x00' + raw[4:]
                    cases.append(('flag-byte/zero-flag', m.hex(), m))
                # non-canonical compact size for the input count / a script length
                pos = 6 if raw[4] == 0 else 4
                cnt = raw[pos]
                if cnt < 253:
                    for enc in (b'\xfd' + struct.pack('<H', cnt), b'\xfe' + struct.pack('<I', cnt), b'\xff' + struct.pack('<Q', cnt)):
                        m = raw[:pos] + enc + raw[pos + 1:]
                        cases.append(('non-canonical-size', m.hex(), m))
                    # count beyond the remaining bytes
                    for big in (b'\xfd\xff\xff', b'\xfe\xff\xff\xff\x01', b'\xff' + b'\xff' * 8, bytes([min(252, cnt + 1)])):
                        m = raw[:pos] + big + raw[pos + 1:]
                        cases.append(('oversized-count', m.hex(), m))
                # EVERY length / count field of the transaction, one at a time, in each longer-than-necessary encoding (all fields whose
                # value sits at an encoding boundary - 252, 253, 65535, 65536 - and a sample of the others)
                vals = []
                orig_cs = rtx.ser_cs

                def rec(v):
                    vals.append(v)
                    return orig_cs(v)
                rtx.ser_cs = rec
                try:
                    rtx.ser_tx(t)
                finally:
                    rtx.ser_cs = orig_cs
                pick = [k for k, v in enumerate(vals) if v in (252, 253, 0xffff, 0x10000)] + [rng.randrange(len(vals)) for _ in range(3)]
                for k in sorted(set(pick)):
                    v = vals[k]
                    forms = []
                    if v < 253:
                        forms.append(b'\xfd' + struct.pack('<H', v))
                    if v <= 0xffff:
                        forms.append(b'\xfe' + struct.pack('<I', v))
                    forms.append(b'\xff' + struct.pack('<Q', v))
                    for form in forms[:2]:
                        cnt = [0]

                        def sub(x, k=k, form=form, cnt=cnt):
                            i = cnt[0]
                            cnt[0] += 1
                            return form if i == k else orig_cs(x)
                        rtx.ser_cs = sub
                        try:
                            m = rtx.ser_tx(t)
                        finally:
                            rtx.ser_cs = orig_cs
                        if len(m) < 200000:
                            cases.append(('non-canonical-size/field-value-%s' % (v if v in (252, 253, 0xffff, 0x10000) else 'other'), m.hex(), m))
                # random single-byte corruption (may or may not stay well-formed: the oracle decides)
                j = rng.randrange(len(raw))
                m = raw[:j] + bytes([raw[j] ^ (1 << rng.randrange(8))]) + raw[j + 1:]
                cases.append(('byte-flip', m.hex(), m))
            # non-hex input
            for bad in (['zz', '0', 'abc', '0x0100', '01 0', 'g0', ''] if chunk_start == 0 else []):
                cases.append(('not-hex', bad, None))
            cmds = ['N t']
            for kind, text, raw in cases:
                cmds.append('PTX ' + (text.encode().hex() or '-'))
            events, crashes, hangs = run_harness_cases(bindir, [('t', cmds)], wd)
            for cr in crashes:
                part.violation('crash:' + cr.key, dict(log=cr.log[-1500:]))
            # split the event stream per PTX command: each ends with TXOK or TXFAIL
            groups = []
            cur = []
            for l in events.get('t', []):
                cur.append(l)
                if l.startswith('TXOK ') or l.startswith('TXFAIL'):
                    groups.append(cur)
                    cur = []
            if len(groups) != len(cases) and not crashes:
                part.inconc('event-count-mismatch')
            for (kind, text, raw), g in zip(cases, groups):
                if raw is None:
                    part.evaluations += 1
                    if any(l.startswith('TXOK') for l in g) and text.strip() != '':
                        part.violation('accepts-non-hex', dict(text=text))
                    elif text.strip() == '' and any(l.startswith('TXOK') for l in g):
                        part.violation('accepts-empty-input', dict(text=text))
                    else:
                        part.nontrivial.add(nt_hash('nonhex', text))
                    continue
                judge_parse(text, raw, g, part, kind)
    finally:
        cleanup_scratch(wd)
    return part.dump()


AMOUNT_POOL = ['0', '1', '0.1', '0.00000001', '0.00000010', '1.00000000', '20999999.9769', '21000000', '0.5', '12.34567891', '0.99999999', '92233720368.54775807', '3', '10', '100', '0.10000000', '5.0', '0.0', '7.00000001']


def amount_worker(job):
    bindir, idx, n = job
    rng = sub_rng(PROP, 'amt', idx)
    part = Partial()
    wd = scratch('c13a')
    try:
        cases = []
        base = gen_tx(rng)
        while not base.vin or ref_parse(rtx.ser_tx(base)) is None:
            base = gen_tx(rng)
        for i in range(n):
            nin = rng.choice([1, 1, 2, 3])
            t = rtx.make_tx(2, [[rb(rng, 32), 0, b'', 0xffffffff] for _ in range(nin)], [(1, b'\x51')], 0)
            k = rng.choice([nin, nin, 1, nin + 1]) if nin > 1 else 1
            ams = []
            for _ in range(k):
                r = rng.random()
                if r < 0.4:
                    ams.append(rng.choice(AMOUNT_POOL))
                elif r < 0.55:
                    # every decimal scaling path: d x 10^k coins, k = 0..9, with and without (zero) fractional digits, and d x 10^-k
                    d = rng.choice([1, 1, 2, 5, 9, 12, 21, 2099, 123])
                    kk = rng.randrange(0, 10)
                    a = str(d * 10 ** kk)
                    if rng.random() < 0.4:
                        a += '.' + '0' * rng.randrange(1, 9)
                    elif rng.random() < 0.3:
                        f = rng.randrange(1, 9)
                        a = ('0.' + '0' * (f - 1) + str(rng.choice([1, 5, 9]))) if rng.random() < 0.5 else a + '.' + '0' * (f - 1) + str(rng.choice([1, 5, 9]))
                    ams.append(a)
                elif r < 0.8:
                    whole = rng.choice([0, 0, 1, 20, 999, 20999999, rng.randrange(10 ** 9)])
                    nd = rng.randrange(0, 9)
                    frac = ''.join(rng.choice('0123456789') for _ in range(nd))
                    ams.append(str(whole) + ('.' + frac if nd else ''))
                else:
                    ams.append(rng.choice(['0.123456789', '1.000000000', '', '-1', '+1', '1e-8', '1E2', '1.', '.5', '01', '1,', 'abc', '0x10', '1.2.3', ' 1', '1 ', '92233720368.54775808', '99999999999999999999']))
            cases.append((t, ams))
        hc = []
        for i, (t, ams) in enumerate(cases):
            hc.append(('a%d' % i, ['N a%d' % i, 'TX ' + (','.join(ams) + ':' + rtx.ser_tx(t).hex()).encode().hex()]))
        events, crashes, hangs = run_harness_cases(bindir, hc, wd)
        for cr in crashes:
            part.violation('crash:amounts:' + cr.key, dict(id=cr.case_id, amounts=cases[int(cr.case_id[1:])][1], log=cr.log[-1500:]))
        for i, (t, ams) in enumerate(cases):
            txe = [l.split(' ') for l in events.get('a%d' % i, []) if l.startswith('TX ')]
            if not txe:
                if not any(l.startswith('CRASH') for l in events.get('a%d' % i, [])):
                    part.inconc('no-TX-event')
                continue
            e = txe[0]
            part.evaluations += 1
            wit = dict(amounts=ams, inputs=len(t.vin))
            import re
            strict = [re.match(r'^(0|[1-9][0-9]*)(\.[0-9]{1,8})?$', a) is not None and Decimal(a) * 10 ** 8 < 10 ** 18 for a in ams]  # the fixed-point parser is specified for |x| < 10^18
            ok = e[1] == '1'
            if all(strict):
                want = [int(Decimal(a) * 10 ** 8) for a in ams]
                while len(want) < len(t.vin):
                    want.append(0)
                if not ok:
                    part.violation('amount-rejected', wit)
                    continue
                got = [int(x) for x in e[3].split(',')] if e[3] != '.' else []
                if got != want:
                    wit['want'] = want
                    wit['got'] = got
                    part.violation('amount-conversion-differs', wit)
                    continue
                part.count('amounts', 'exact')
                part.nontrivial.add(nt_hash('amt', tuple(ams)))
            else:
                # outside the stated domain (more than 8 fractional digits, signs, exponents, empty fields, ...):
                # if accepted at all, every in-domain field must still be exact and nothing may be silently mangled
                if ok:
                    got = [int(x) for x in e[3].split(',')] if e[3] != '.' else []
                    for a, s, g in zip(ams, strict, got):
                        if s and int(Decimal(a) * 10 ** 8) != g:
                            part.violation('amount-conversion-differs', dict(wit, got=got))
                            break
                    else:
                        # empty / garbage fields must not be accepted
                        import re as _re
                        if any(a == '' or _re.search(r'[^0-9eE+\-.]', a) for a in ams):
                            part.violation('malformed-amount-accepted', dict(wit, got=got))
                part.count('amounts', 'out-of-domain:' + ('accepted' if ok else 'rejected'))
    finally:
        cleanup_scratch(wd)
    return part.dump()


def binary_worker(job):
    bindir, idx, n = job
    rng = sub_rng(PROP, 'bin', idx)
    part = Partial()
    wd = scratch('c13b')
    btcdeb = os.path.join(bindir, 'btcdeb')
    try:
        for i in range(n):
            t = gen_tx(rng)
            raw = rtx.ser_tx(t)
            if ref_parse(raw) is None or len(raw) > 20000:
                continue
            if not t.vin:
                continue      # `--tx` needs an input to debug: zero-input transactions are refused by the tool (decoding itself is judged in the harness)
            kind = rng.choice(['valid', 'truncation', 'trailing', 'flag'])
            m = raw
            if kind == 'truncation':
                m = raw[:rng.randrange(len(raw))]
            elif kind == 'trailing':
                m = raw + b'\x00'
            elif kind == 'flag' and raw[4] == 0:
                m = raw[:5] + b'\x02' + raw[6:]
            r = proc.run([btcdeb, '-v', '--tx=' + m.hex(), 'OP_1'], wd, mode='repl', stdin=b'', timeout=30)
            part.evaluations += 1
            wit = dict(kind=kind, hex=m.hex()[:400], run=r.brief())
            if r.abnormal:
                part.violation('btcdeb:' + r.crash_key('btcdeb'), wit)
                continue
            want = ref_parse(m)
            err = r.stderr.decode('latin1')
            if want is None:
                if r.rc == 0 or not err.strip():
                    part.violation('btcdeb-accepts-malformed-tx:' + kind, wit)
                else:
                    part.count('binary', 'rejected-with-diagnostic')
                    part.nontrivial.add(nt_hash('b', m))
            else:
                txid_disp = rtx.txid(want)[::-1].hex()
                if ('transaction ' + txid_disp) not in err:
                    part.violation('btcdeb-displays-wrong-txid', dict(wit, want=txid_disp))
                else:
                    part.count('binary', 'txid-displayed')
                    part.nontrivial.add(nt_hash('b', m))
    finally:
        cleanup_scratch(wd)
    return part.dump()


RTX = re.compile(r'Resulting transaction: ([0-9a-f]+)')


def tap_worker(job):
    """tap parses a spending transaction, converts it to a mutable one, adds a witness and prints it again: every field that is
    not the witness of the spent input must come back exactly as it was encoded"""
    bindir, idx, n = job
    rng = sub_rng(PROP, 'tap', idx)
    part = Partial()
    wd = scratch('c13t')
    tap = os.path.join(bindir, 'tap')
    try:
        for i in range(n):
            ikey = secp.xonly_from_sec(rng.randrange(1, 2 ** 200))
            script = bytes([OP_1])
            q, par = taproot.output_key(ikey, taproot.tapleaf_hash(script))
            nfo = rng.choice([1, 2, 3])
            fvout = rng.randrange(nfo)
            fouts = [(rng.choice([1000, 77777, 0, 21 * 10 ** 14]), rng.choice([b'\x51', b'', bytes(rng.randrange(256) for _ in range(rng.choice([22, 34, 252, 253])))])) for _ in range(nfo)]
            fouts[fvout] = (rng.choice([546, 100000, 21 * 10 ** 14]), rsign.spk_p2tr(q))
            fund = rsign.funding_tx(rng, fouts)
            tx = rsign.spending_tx(rng, [(rtx.txid(fund), fvout)], nout=rng.choice([1, 2, 3]), version=rng.choice([1, 2, 2, 3, 0, -1, 0x7fffffff, -0x80000000]),
                                   locktime=rng.choice([0, 1, 499999999, 500000000, 0xffffffff]), sequences=[rng.choice([0xffffffff, 0xfffffffe, 0, 5, 0x80000000])])
            tx.wit = None
            r = proc.run([tap, '--tx=' + rtx.ser_tx(tx).hex(), '--txin=' + rtx.ser_tx(fund).hex(), ikey.hex(), '1', '0x' + script.hex(), '0'], wd, mode='pipe', timeout=60)
            part.evaluations += 1
            wit = dict(kind='tap-roundtrip', tx=rtx.ser_tx(tx).hex(), txin=rtx.ser_tx(fund).hex(), internal_key=ikey.hex())
            if r.abnormal:
                part.violation('tap:' + r.crash_key('tap'), dict(wit, run=r.brief()))
                continue
            m = RTX.search(r.stdout.decode('latin1'))
            if r.rc != 0 or not m:
                part.violation('tap-refuses-wellformed-transaction', dict(wit, run=r.brief()))
                continue
            try:
                rt = rtx.parse_tx(bytes.fromhex(m.group(1)))
            except Exception:
                part.violation('tap-prints-unparsable-transaction', dict(wit, got=m.group(1)[:300]))
                continue
            for nm, a, b in (('version', tx.version, rt.version), ('locktime', tx.locktime, rt.locktime), ('inputs', [list(v) for v in tx.vin], [list(v) for v in rt.vin]), ('outputs', list(tx.vout), list(rt.vout))):
                if a != b:
                    part.violation('tap-roundtrip-field-differs:' + nm, dict(wit, want=str(a)[:200], got=str(b)[:200]))
                    break
            else:
                part.count('binary', 'tap-roundtrip-fields-equal')
                part.nontrivial.add(nt_hash('tap', rtx.ser_tx(tx)))
    finally:
        cleanup_scratch(wd)
    return part.dump()


def main():
    ap = argparse.ArgumentParser()
    ap.add_argument('--tier', default=os.environ.get('VERIF_TIER', 'quick'))
    ap.add_argument('--replay')
    a = ap.parse_args()
    bindir = vbuild.build('asan')
    rep = Reporter(PROP, a.tier)
    if a.replay:
        d = json.load(open(a.replay))
        for w in d['witnesses']:
            print(json.dumps(w, indent=1)[:3000])
        return 0
    th = a.tier == 'thorough'
    for r in parallel(worker, [(bindir, i, 600 if not th else 15000) for i in range(16)]):
        rep.merge(r)
    for r in parallel(amount_worker, [(bindir, i, 400 if not th else 30000) for i in range(16)]):
        rep.merge(r)
    for r in parallel(binary_worker, [(bindir, i, 30 if not th else 600) for i in range(16)]):
        rep.merge(r)
    for r in parallel(tap_worker, [(bindir, i, 12 if not th else 600) for i in range(16)]):
        rep.merge(r)
    return rep.finish(
        rule='transactions with 0..6 inputs/outputs, script lengths at 0/1/252/253/254/65535/65536, witness present/absent/mixed, negative and extreme versions/values, hex with embedded whitespace; for each: every truncation (all prefixes for small ones), '
             'trailing bytes, every flag-byte corruption, non-canonical and oversized compact sizes, a random bit flip (oracle decides whether it stays well-formed); amount prefixes: decimal strings with 0..8 fractional digits from a boundary pool and random, '
             'plus out-of-domain forms; btcdeb -v --tx on a sample (txid display / rejection with diagnostic); tap --tx/--txin round trips (versions 1/2/3/0/-1/extremes, lock times, sequences, 1..3 outputs: every non-witness field of the "Resulting transaction" equals the input). non-trivial = distinct encoding judged (accepted with all fields equal, or rejected with a diagnostic)',
        assumptions=['ref/tx.py is the transaction codec (anchored on the doc/txs chain data: byte-exact round trip and documented txids)'],
        min_events=1000)


if __name__ == '__main__':
    main_wrapper(main)
