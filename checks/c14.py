"""C14 — value transforms compute their defined functions and invert each other.

Events : output of the real `tf` command implementation (fn_tf, called in the native harness with stdout/stderr
         captured; a sample also through the scripted REPL of the real btcdeb binary), of the inline form
         name(arg) (Value constructor / btcc), and of the corresponding script opcode (Instance::step()).
Oracle : hashlib / ref.codec / ref.secp: SHA-256, RIPEMD-160, compositions, BIP340 tagged hashes; base58check and
         bech32/bech32m encode<->decode inverse, corrupted strings rejected; compact-size prefix, reversal, length,
         hex/int, modular add/sub on 256-bit little-endian integers, address<->scriptPubKey, Jacobi symbol, EC key
         transforms; inline == command == opcode.
"""
import sys, os, argparse, json, hashlib
sys.path.insert(0, os.path.dirname(os.path.dirname(os.path.abspath(__file__))))
from vf.common import *
from vf import build as vbuild, proc
from ref.script import *
from ref import codec, secp, asm
from ref.sighash import tagged
from checks.lockstep import parse_events

PROP = 'C14'


def rb(rng, n):
    return bytes(rng.randrange(256) for _ in range(n))


def arg_bytes(tok):
    """the bytes a single tf argument denotes (tf's argument grammar == btcc's): int -> script number,
    opcode -> its byte, hex -> bytes, anything else -> ASCII"""
    c = asm.classify(tok)
    if c is None:
        return ('string', tok.encode('latin1'))
    k, v = c
    if k == 'int':
        return ('int', num_encode(v))
    if k == 'op':
        return ('op', bytes([v]))
    return ('data', v)


def pushable(b):
    """multi-argument transforms receive their operands as pushes: operands that compile to OP_0 / OP_1..16 /
    OP_1NEGATE cannot be delivered (recorded finding); the generators stay in the deliverable domain"""
    return not (len(b) == 0 or (len(b) == 1 and (1 <= b[0] <= 16 or b[0] == 0x81)))


LENS = [0, 1, 2, 3, 4, 5, 20, 31, 32, 33, 55, 56, 57, 63, 64, 65, 119, 120, 252, 253, 254, 300]


def gen_data(rng, big=False):
    ln = rng.choice(LENS if not big else LENS + [1000, 65535, 65536])
    return rb(rng, ln)


def hex_tok(b):
    return '0x' + b.hex()


def le(b):
    return int.from_bytes(b[:32], 'little')


def le32(n):
    return (n % 2 ** 256).to_bytes(32, 'little')


def make_cases(rng, n):
    """-> list of dict(tf=line, kind, expect=callable(stdout, stderr) -> None | 'reason')"""
    out = []

    def eq(want):
        return lambda so, se: None if so.strip() == want else 'want %s got %s' % (want[:80], so.strip()[:80])

    def add(line, kind, check, **kw):
        out.append(dict(tf=line, kind=kind, check=check, **kw))
    for _ in range(n):
        d = gen_data(rng)
        h = hex_tok(d) if d else '0x'
        which = rng.randrange(26)
        if which == 0:
            for nm, fn in (('sha256', lambda x: hashlib.sha256(x).digest()), ('ripemd160', codec.ripemd160), ('hash160', lambda x: codec.ripemd160(hashlib.sha256(x).digest())),
                           ('hash256', lambda x: hashlib.sha256(hashlib.sha256(x).digest()).digest())):
                add('%s %s' % (nm, h), nm, eq(fn(d).hex()), inline='%s(%s)' % (nm, h), inline_want=fn(d), opcode=(OP['SHA256' if nm == 'sha256' else nm.upper()], d))
            # a [sub-script] as the argument: the function is applied to the compiled bytes - on its own and inside a bracketed script
            # (without blanks: the interactive command line splits its arguments at blanks before anything is parsed)
            sub = push_data(d[:60])
            subtxt = '[%s]' % (hex_tok(d[:60]) if d[:60] else '0x')
            nm, fn = rng.choice([('sha256', lambda x: hashlib.sha256(x).digest()), ('hash160', lambda x: codec.ripemd160(hashlib.sha256(x).digest()))])
            if not any(ch in subtxt for ch in '()') and len(d[:60]) >= 5:
                add('echo %s(%s)' % (nm, subtxt), nm + ':sub-script-argument', eq(fn(sub).hex()), inline='%s(%s)' % (nm, subtxt), inline_want=fn(sub))
                add('echo [%s(%s) OP_DROP]' % (nm, subtxt), nm + ':sub-script-argument-inside-script', eq((push_data(fn(sub)) + bytes([OP_DROP])).hex()))
        elif which == 1:
            # string / integer arguments hash their ASCII / script-number bytes
            s = rng.choice(['abc', 'hello', 'TapLeaf', 'xyz!', 'The_quick_brown_fox'])
            add('sha256 %s' % s, 'sha256:string', eq(hashlib.sha256(s.encode()).hexdigest()))
            v = rng.choice([0, 1, 17, 255, 256, -1, 1234, 2 ** 31 - 1, 515293])
            add('hash160 %d' % v, 'hash160:int', eq(codec.ripemd160(hashlib.sha256(num_encode(v)).digest()).hex()))
        elif which == 2:
            add('hex %s' % h, 'hex', eq(d.hex()))
            v = rng.choice([0, 1, 16, 17, 127, 128, 255, 256, -1, -128, 32767, 32768, 2 ** 31 - 1, -2 ** 31, rng.randrange(-2 ** 40, 2 ** 40)])
            add('hex %d' % v, 'hex:int', eq(num_encode(v).hex()), inline='hex(%d)' % v, inline_str=num_encode(v).hex())
            if len(d) <= 4:
                add('int %s' % h, 'int', eq(str(num_decode(d, False, 4))))
            else:
                add('int %s' % h, 'int:overflow', lambda so, se: None if ('overflow' in se or 'exception' in se) and so.strip() == '' else 'long operand not refused: ' + so[:60])
        elif which == 3:
            add('len %s' % h, 'len', eq(str(len(d))))
            s = rng.choice(['abc', 'a', 'hello world'.replace(' ', '_')])
            add('len %s' % s, 'len:string', eq(str(len(s))))
            add('echo %s' % h, 'echo', eq(d.hex()))
        elif which == 4:
            add('reverse %s' % h, 'reverse', eq(d[::-1].hex()), inline='reverse(%s)' % h, inline_want=d[::-1])
            s = rng.choice(['abc', 'hello', 'xy'])
            add('reverse %s' % s, 'reverse:string', eq('"%s"' % s[::-1]))
        elif which == 5:
            dd = gen_data(rng, big=True)
            add('prefix-compact-size %s' % (hex_tok(dd) if dd else '0x'), 'prefix-compact-size', eq((codec.compact_size(len(dd)) + dd).hex()),
                inline='prefix_compact_size(%s)' % (hex_tok(dd) if dd else '0x'), inline_want=codec.compact_size(len(dd)) + dd)
            # the argument may be text (its bytes are the data) or an opcode name (the opcode byte)
            s = rng.choice(['abc', 'hello', 'xy', 'q' * 300, 'Taproot'])
            add('prefix-compact-size %s' % s, 'prefix-compact-size:string', eq((codec.compact_size(len(s)) + s.encode()).hex()), inline='prefix_compact_size(%s)' % s, inline_want=codec.compact_size(len(s)) + s.encode())
            on = rng.choice(['OP_DUP', 'OP_CHECKSIG', 'OP_NOP'])
            add('prefix-compact-size %s' % on, 'prefix-compact-size:opcode', eq('01%02x' % OP[on[3:]]), inline='prefix_compact_size(%s)' % on, inline_want=bytes([1, OP[on[3:]]]))
        elif which == 6:
            p = rb(rng, rng.choice([1, 20, 21, 25, 33, 34, 64, 100, 150, 195, 196, 197, 198, 199, 200, 201, 202, 256, 300, 520] * 3 + [9995, 9996, 9997, 9998, 9999, 10000]))
            enc = codec.b58check_encode(p)
            add('base58chk-encode %s' % hex_tok(p), 'base58chk-encode', eq('"%s"' % enc), inline='base58chkenc(%s)' % hex_tok(p), inline_str=enc)
            add('base58chk-decode %s' % enc, 'base58chk-decode', eq(p.hex()), inline='base58chkdec(%s)' % enc, inline_want=p)
            # every single-character corruption must be rejected: diagnostic, and the payload must not be shown
            j = rng.randrange(len(enc))
            alt = rng.choice([c for c in codec.B58 if c != enc[j]])
            bad = enc[:j] + alt + enc[j + 1:]
            if codec.b58check_decode(bad) is None:
                add('base58chk-decode %s' % bad, 'base58chk-decode:corrupt', lambda so, se, p=p: None if se.strip() and p.hex() not in so else 'corrupted string not rejected: %s | %s' % (so[:60], se[:60]))
        elif which == 7:
            # (payloads of 49 bytes and more give strings of more than 90 characters: whatever the encoders produce, the decoder inverts)
            p = rb(rng, rng.choice([20, 32, 32, 2, 40, 47, 48, 49, 50, 64, 100, 520, 4000]))
            for nm, const, inl in (('bech32-encode', codec.BECH32_CONST, 'bech32enc'), ('bech32m-encode', codec.BECH32M_CONST, None)):
                # the command encodes <witness version 1><program> with hrp 'bcrt' (help: "encode [pubkey]"): only internal consistency
                # and the documented structure are demanded
                want = codec.bech32_encode('bcrt', [1] + codec.convertbits(p, 8, 5), const)
                add('%s %s' % (nm, hex_tok(p)), nm, eq('"%s"' % want), inline=('%s(%s)' % (inl, hex_tok(p))) if inl else None, inline_str=want)
                add('bech32-decode %s' % want, 'bech32-decode', lambda so, se, p=p: None if so.strip().splitlines()[-1:] == [p.hex()] else 'decode(encode(x)) != x: ' + so[:80])
                # BIP173: an all-uppercase string is the same encoding (decoders must accept it); mixed case is invalid
                add('bech32-decode %s' % want.upper(), 'bech32-decode:uppercase', lambda so, se, p=p: None if so.strip().splitlines()[-1:] == [p.hex()] else 'decode(UPPER(encode(x))) != x: ' + so[:80] + ' | ' + se[:60])
                # other human-readable parts and witness versions decode just as well
                hrp2, ver2 = rng.choice(['bc', 'tb', 'a', 'x' * 10]), rng.choice([0, 2, 16])
                p2 = rb(rng, 20 if ver2 == 0 else rng.choice([2, 20, 32, 40]))
                add('bech32-decode %s' % codec.bech32_encode(hrp2, [ver2] + codec.convertbits(p2, 8, 5), codec.BECH32_CONST if ver2 == 0 else const), 'bech32-decode:other-hrp',
                    lambda so, se, p2=p2: None if so.strip().splitlines()[-1:] == [p2.hex()] else 'decode of a valid string with another hrp/version differs: ' + so[:80] + ' | ' + se[:60])
                j = rng.randrange(len('bcrt1'), len(want))
                alt = rng.choice([c for c in codec.CHARSET if c != want[j]])
                bad = want[:j] + alt + want[j + 1:]
                add('bech32-decode %s' % bad, 'bech32-decode:corrupt', lambda so, se, p=p: None if se.strip() and p.hex() not in so else 'corrupted string not rejected: %s | %s' % (so[:60], se[:60]))
                # a single character in the other case makes the string mixed-case: invalid wherever it is (hrp, data part, checksum)
                letters = [k for k, ch in enumerate(want) if ch.isalpha()]
                j = rng.choice(letters)
                mixed = want[:j] + want[j].upper() + want[j + 1:]
                add('bech32-decode %s' % mixed, 'bech32-decode:mixed-case', lambda so, se, p=p: None if se.strip() and p.hex() not in so else 'mixed-case string not rejected: %s | %s' % (so[:60], se[:60]))
                j = rng.choice(letters)
                mixed = want.upper()[:j] + want[j] + want.upper()[j + 1:]
                add('bech32-decode %s' % mixed, 'bech32-decode:mixed-case', lambda so, se, p=p: None if se.strip() and p.hex() not in so else 'mixed-case string not rejected: %s | %s' % (so[:60], se[:60]))
        elif which == 8:
            h160 = rb(rng, 20)
            spk = bytes([OP_DUP, OP_HASH160, 20]) + h160 + bytes([OP_EQUALVERIFY, OP_CHECKSIG])
            addr = codec.b58check_encode(b'\x00' + h160)
            add('scriptpubkey-to-addr %s' % hex_tok(spk), 'scriptpubkey-to-addr', eq('"%s"' % addr), inline='spk_to_addr(%s)' % hex_tok(spk), inline_str=addr)
            add('addr-to-scriptpubkey %s' % addr, 'addr-to-scriptpubkey', eq(spk.hex()), inline='addr_to_spk(%s)' % addr, inline_want=spk)
            # the version byte of a base58 address says what kind of output it is: 0x00 / 0x6f pay to a public-key hash,
            # 0x05 / 0xc4 pay to a script hash (BIP13); anything else has no corresponding scriptPubKey
            spk_sh = bytes([OP_HASH160, 20]) + h160 + bytes([OP_EQUAL])
            add('addr-to-scriptpubkey %s' % codec.b58check_encode(b'\x6f' + h160), 'addr-to-scriptpubkey:testnet', eq(spk.hex()))
            ver = rng.choice([5, 0xc4])
            a_sh = codec.b58check_encode(bytes([ver]) + h160)
            add('addr-to-scriptpubkey %s' % a_sh, 'addr-to-scriptpubkey:p2sh', eq(spk_sh.hex()), inline='addr_to_spk(%s)' % a_sh, inline_want=spk_sh)
            add('scriptpubkey-to-addr %s' % hex_tok(spk_sh), 'scriptpubkey-to-addr:p2sh', eq('"%s"' % codec.b58check_encode(b'\x05' + h160)))
            a_unk = codec.b58check_encode(bytes([rng.choice([1, 0x30, 0x80, 0xff])]) + h160)
            add('addr-to-scriptpubkey %s' % a_unk, 'addr-to-scriptpubkey:unknown-version', lambda so, se, spk=spk, spk_sh=spk_sh: None if ((se + so).strip() and spk.hex() not in so and spk_sh.hex() not in so) else 'address of an unknown kind converted: %s | %s' % (so[:60], se[:60]))
        elif which == 9:
            a, b = rb(rng, rng.choice([5, 8, 20, 32])), rb(rng, rng.choice([5, 8, 20, 32]))
            if rng.random() < 0.3:
                a = b'\xff' * 32
            add('add %s %s' % (hex_tok(a), hex_tok(b)), 'add', eq(le32(le(a) + le(b)).hex()))
            add('sub %s %s' % (hex_tok(a), hex_tok(b)), 'sub', eq(le32(le(a) - le(b)).hex()))
            g = rb(rng, rng.choice([5, 8, 32]))
            g = g[:-1] + bytes([g[-1] | 0x80])
            gi = le(g)
            ai, bi = le(a) % gi, le(b) % gi
            ar, br = ai.to_bytes(32, 'little').rstrip(b'\x00') or b'\x00', bi.to_bytes(32, 'little').rstrip(b'\x00') or b'\x00'
            # boundary: the sum equals the modulus exactly / the difference is zero
            if rng.random() < 0.4 and ai > 2 ** 40 and gi - ai > 2 ** 40:
                bi = gi - ai
                br = bi.to_bytes(32, 'little').rstrip(b'\x00')
                add('add %s %s %s' % (hex_tok(ar), hex_tok(br), hex_tok(g)), 'add:group:sum-equals-modulus', eq(le32(0).hex()))
                add('sub %s %s %s' % (hex_tok(ar), hex_tok(ar), hex_tok(g)), 'sub:group:equal-operands', eq(le32(0).hex()))
            # operands that are not reduced yet: the result is still the sum / difference modulo the group
            if len(a) >= 5 and len(b) >= 5 and rng.random() < 0.5:
                add('add %s %s %s' % (hex_tok(a), hex_tok(b), hex_tok(g)), 'add:group:unreduced-operands', eq(le32((le(a) + le(b)) % gi).hex()))
                add('sub %s %s %s' % (hex_tok(a), hex_tok(b), hex_tok(g)), 'sub:group:unreduced-operands', eq(le32((le(a) - le(b)) % gi).hex()))
            if len(ar) >= 5 and len(br) >= 5:
                add('add %s %s %s' % (hex_tok(ar), hex_tok(br), hex_tok(g)), 'add:group', eq(le32((ai + bi) % gi).hex()))
                add('sub %s %s %s' % (hex_tok(ar), hex_tok(br), hex_tok(g)), 'sub:group', eq(le32((ai - bi) % gi).hex()))
            if rng.random() < 0.2:
                # operands that compile to OP_0 / OP_1..16 / OP_1NEGATE (recorded finding: they cannot be delivered as pushes)
                x, y = rng.choice([1, 5, 16, 0x81]), rng.choice([2, 3, 9])
                add('add 0x%02x 0x%02x' % (x, y), 'add:small-operand', eq(le32(x + y).hex()))
        elif which == 10:
            tag = rng.choice(['TapLeaf', 'TapBranch', 'TapTweak', 'BIP0340/challenge', 'x'])
            msg = rb(rng, rng.choice([5, 32, 64, 100]))
            add('tagged-hash %s %s' % (tag, hex_tok(msg)), 'tagged-hash', eq(tagged(tag, msg).hex()))
        elif which == 11:
            # Jacobi symbol: 32-byte operands; byte order is not stated -> both readings accepted when they differ
            prime = rng.random() < 0.6
            n = rb(rng, 32)
            if prime:
                wl = codec.jacobi(int.from_bytes(n, 'little'), secp.p)
                wb = codec.jacobi(int.from_bytes(n, 'big'), secp.p)
                add('jacobi-symbol %s' % hex_tok(n), 'jacobi-symbol', lambda so, se, wl=wl, wb=wb: None if so.strip() in (str(wl), str(wb)) else 'want %d (or %d) got %s' % (wl, wb, so.strip()[:40]))
            else:
                k = rb(rng, 32)
                k = bytes([k[0] | 1]) + k[1:31] + bytes([k[31] | 1])    # odd in both byte orders
                wl = codec.jacobi(int.from_bytes(n, 'little'), int.from_bytes(k, 'little'))
                wb = codec.jacobi(int.from_bytes(n, 'big'), int.from_bytes(k, 'big'))
                add('jacobi-symbol %s %s' % (hex_tok(n), hex_tok(k)), 'jacobi-symbol:k', lambda so, se, wl=wl, wb=wb: None if so.strip() in (str(wl), str(wb)) else 'want %d (or %d) got %s' % (wl, wb, so.strip()[:40]))
        elif which == 12:
            s1, s2 = rng.randrange(1, secp.n), rng.randrange(1, secp.n)
            p1, p2 = secp.pub_from_sec(s1), secp.pub_from_sec(s2, rng.random() < 0.8)
            ssum = (s1 + s2) % secp.n
            if ssum:
                add('combine-pubkeys %s %s' % (hex_tok(p1), hex_tok(p2)), 'combine-pubkeys', eq(secp.pub_from_sec(ssum).hex()))
            t = rng.randrange(1, secp.n)
            add('tweak-pubkey %s %s' % (hex_tok(t.to_bytes(32, 'big')), hex_tok(p1)), 'tweak-pubkey', eq(secp.pub_from_sec(s1 * t % secp.n).hex()))
            add('pubkey-to-xpubkey %s' % hex_tok(p2), 'pubkey-to-xpubkey', eq(secp.xonly_from_sec(s2).hex()))
            x = secp.xonly_from_sec(s1)
            tw = rb(rng, 32)
            r = secp.xonly_tweak_add(x, tw)
            if r:
                add('taproot-tweak-pubkey %s %s' % (hex_tok(x), hex_tok(tw)), 'taproot-tweak-pubkey', eq((bytes([2 + r[1]]) + r[0]).hex()))
        elif which == 13:
            sk = rng.randrange(1, secp.n)
            msg = rb(rng, 32)
            sig = secp.ecdsa_sign(sk, msg)
            pub = secp.pub_from_sec(sk)
            good = rng.random() < 0.5
            m2 = msg if good else rb(rng, 32)
            add('verify-sig %s %s %s' % (hex_tok(m2), hex_tok(pub), hex_tok(sig)), 'verify-sig', eq('1' if good else '0'))
            xs = secp.schnorr_sign(sk, msg)
            add('verify-sig %s %s %s' % (hex_tok(m2), hex_tok(secp.xonly_from_sec(sk)), hex_tok(xs)), 'verify-sig:schnorr', lambda so, se, good=good: None if so.strip().splitlines()[-1:] == ['1' if good else '0'] else 'got ' + so[:40])
        else:
            # adversarial / degenerate arguments: must answer (result or diagnostic), never crash (also feeds C15)
            nm = rng.choice(['addr-to-scriptpubkey', 'base58chk-decode', 'bech32-decode', 'scriptpubkey-to-addr', 'add', 'sub', 'jacobi-symbol', 'combine-pubkeys', 'tweak-pubkey', 'pubkey-to-xpubkey',
                             'taproot-tweak-pubkey', 'verify-sig', 'verify-sig-compact', 'tagged-hash', 'int', 'reverse', 'len', 'hex', 'prefix-compact-size', 'bech32-encode', 'base58chk-encode'])
            args = [rng.choice(['xyz', '0x', '1', '0', '-1', 'OP_DUP', hex_tok(rb(rng, rng.choice([1, 31, 32, 33, 64, 65]))), '1111111111111111111114oLvT2', 'bc1qw508d6qejxtdg4y5r3zarvary0c5xw7kv8f3t4',
                               '[OP_1 OP_2]', '""' if False else 'a', '9' * 30]) for _ in range(rng.choice([1, 1, 2, 3, 4]))]
            if rng.random() < 0.25:
                # checksum-valid encodings with unusual payloads (no data symbols at all, a version symbol only, bits that do not regroup)
                n5 = rng.choice([0, 0, 1, 2, 3, 8, 9, 33, 53, 54])
                enc = codec.bech32_encode(rng.choice(['a', 'bc', 'tb', 'bcrt']), [rng.randrange(32) for _ in range(n5)], rng.choice([1, 0x2bc830a3])) if rng.random() < 0.7 else \
                    codec.b58check_encode(rb(rng, rng.choice([0, 0, 1, 2, 4])))
                nm, args = rng.choice(['bech32-decode', 'base58chk-decode', 'addr-to-scriptpubkey']), [enc]
            add('%s %s' % (nm, ' '.join(args)), 'adversarial', lambda so, se: None)
    return out


def worker(job):
    bindir, idx, n = job
    rng = sub_rng(PROP, idx)
    part = Partial()
    wd = scratch('c14')
    try:
        cases = make_cases(rng, n)
        cmds = []
        hc = []
        for i, c in enumerate(cases):
            hc.append(('t%d' % i, ['N t%d' % i, 'TF ' + c['tf'].encode('latin1').hex()]))
        events, crashes, hangs = run_harness_cases(bindir, hc, wd)
        for cr in crashes:
            c = cases[int(cr.case_id[1:])]
            part.violation('crash:%s:%s' % (c['tf'].split(' ')[0], cr.key), dict(tf=c['tf'][:300], log=cr.log[-1500:]))
        inl = []
        ops = []
        for i, c in enumerate(cases):
            lines = events.get('t%d' % i, [])
            if any(l.startswith('CRASH') for l in lines):
                continue
            if any(l.startswith('EXIT') for l in lines):
                # the command ended the whole process with exit(): allowed only for adversarial input (it is a diagnostic + termination)
                part.evaluations += 1
                part.count('transforms', 'exit()-from-tf')
                if c['kind'] != 'adversarial':
                    part.violation('%s:tf-exits-the-process' % c['kind'], dict(tf=c['tf'][:300]))
                continue
            tf = [l.split(' ') for l in lines if l.startswith('TF ')]
            part.evaluations += 1
            if not tf:
                part.inconc('no-TF-event')
                continue
            text = bytes.fromhex(tf[0][2]).decode('latin1') if tf[0][2] != '-' else ''
            # fn_tf prints results on stdout and diagnostics on stderr; both were captured into one stream:
            # diagnostics are recognised by their fixed prefixes
            so_lines, se_lines = [], []
            for ln in text.split('\n'):
                low = ln.lower()
                if ln.startswith(('exception:', 'invalid', 'cannot', 'decode failed', 'failed', 'wrong length', 'unknown script', 'n must', 'k must', 'warning', 'NOTE', 'msg =', 'irreversible', 'unknown function', '(bech32', '(pk_parity')) \
                        or 'invalid input' in low or 'failure' in low:
                    se_lines.append(ln)
                elif ln != '':
                    so_lines.append(ln)
            so, se = '\n'.join(so_lines), '\n'.join(se_lines)
            part.count('transforms', c['kind'])
            why = c['check'](so, se)
            if why:
                part.violation('%s:wrong-result' % c['kind'] if c['kind'] != 'add:small-operand' else 'multi-argument-transform-rejects-small-operands', dict(tf=c['tf'][:400], why=why, output=text[:300]))
                continue
            if c['kind'] != 'adversarial':
                part.nontrivial.add(nt_hash(c['tf']))
                part.sample(dict(tf=c['tf'][:100], output=text.strip()[:100]), limit=2)
            if c.get('inline'):
                inl.append(c)
            if c.get('opcode'):
                ops.append(c)
        # inline form: Value("name(arg)") must give the same bytes / string as the command form
        hc = [('i%d' % i, ['N i%d' % i, 'VS ' + c['inline'].encode('latin1').hex()]) for i, c in enumerate(inl)]
        events, crashes, hangs = run_harness_cases(bindir, hc, wd)
        for cr in crashes:
            c = inl[int(cr.case_id[1:])]
            part.violation('crash:inline:%s:%s' % (c['kind'], cr.key), dict(expr=c['inline'][:300], log=cr.log[-1500:]))
        for i, c in enumerate(inl):
            vs = [l.split(' ') for l in events.get('i%d' % i, []) if l.startswith('VS ')]
            if not vs:
                continue
            part.evaluations += 1
            e = vs[0]
            got = bytes.fromhex(e[3]) if e[3] != '-' else b''
            want = c.get('inline_want')
            if want is None and c.get('inline_str') is not None:
                want = c['inline_str'].encode()
            if want is not None and got != want:
                part.violation('%s:inline-differs-from-command' % c['kind'], dict(expr=c['inline'][:300], want=want.hex()[:200], got=got.hex()[:200]))
            else:
                part.count('inline', c['kind'])
                part.nontrivial.add(nt_hash('inl', c['inline']))
        # opcode form: <data> OP_HASH
        hc = []
        for i, c in enumerate(ops):
            op, d = c['opcode']
            if len(d) > 520:
                continue
            hc.append(('o%d' % i, ['N o%d' % i, 'SV 0', 'FL 0', 'SC %02x' % op, 'ST ' + hexs(d), 'SU', 'CS']))
        events, crashes, hangs = run_harness_cases(bindir, hc, wd)
        for i, c in enumerate(ops):
            evs = parse_events(events.get('o%d' % i, []))
            st = [e for k, e in evs if k == 'S']
            if not st:
                continue
            part.evaluations += 1
            if st[0].stack != [c['inline_want']]:
                part.violation('%s:opcode-differs-from-command' % c['kind'], dict(tf=c['tf'][:200]))
            else:
                part.count('opcode_form', c['kind'])
    finally:
        cleanup_scratch(wd)
    return part.dump()


def repl_worker(job):
    """a sample through the real binary: `tf` in the scripted REPL and btcc 'name(arg)'"""
    bindir, idx, n = job
    rng = sub_rng(PROP, 'repl', idx)
    part = Partial()
    wd = scratch('c14r')
    btcdeb = os.path.join(bindir, 'btcdeb')
    btcc = os.path.join(bindir, 'btcc')
    try:
        cases = [c for c in make_cases(rng, n) if c['kind'] != 'adversarial' and len(c['tf']) < 900][:n]
        r, segs = proc.repl_session(btcdeb, ['OP_1'], ['tf ' + c['tf'] for c in cases], wd, timeout=120)
        if r.abnormal:
            part.violation('repl:' + r.crash_key('btcdeb'), dict(run=r.brief(), first=cases[0]['tf'][:200] if cases else None))
            return part.dump()
        for c, s in zip(cases, segs[1:]):
            part.evaluations += 1
            lines = [l for l in s['out'].split('\n') if l.strip() and not l.startswith('btcdeb> ')]
            so = '\n'.join(l for l in lines if not l.startswith('(bech32'))
            why = c['check'](so, r.stderr.decode('latin1'))
            if why and 'corrupt' not in c['kind'] and 'overflow' not in c['kind']:
                part.violation('%s:repl-output-differs' % c['kind'] if c['kind'] != 'add:small-operand' else 'multi-argument-transform-rejects-small-operands', dict(tf=c['tf'][:300], why=why, out=s['out'][:300]))
            else:
                part.count('repl', c['kind'])
                part.nontrivial.add(nt_hash('repl', c['tf']))
        for c in cases:
            if c.get('inline') and c.get('inline_want') is not None and len(c['inline']) < 1500 and 5 <= len(c['inline_want']) <= 520:
                rr = proc.run([btcc, c['inline']], wd, mode='pipe')
                part.evaluations += 1
                if rr.abnormal:
                    part.violation('btcc-inline:' + rr.crash_key('btcc'), dict(expr=c['inline'][:200], run=rr.brief()))
                    continue
                want = push_data(c['inline_want']).hex()
                if rr.stdout.decode('latin1').strip() != want:
                    part.violation('%s:btcc-inline-differs' % c['kind'], dict(expr=c['inline'][:200], want=want[:200], got=rr.stdout.decode('latin1')[:200]))
                else:
                    part.count('btcc_inline', c['kind'])
    finally:
        cleanup_scratch(wd)
    return part.dump()


def main():
    ap = argparse.ArgumentParser()
    ap.add_argument('--tier', default=os.environ.get('VERIF_TIER', 'quick'))
    ap.add_argument('--replay')
    a = ap.parse_args()
    bindir = vbuild.build('asan')
    rep = Reporter(PROP, a.tier)
    if a.replay:
        d = json.load(open(a.replay))
        for w in d['witnesses']:
            print(json.dumps(w, indent=1)[:3000])
        return 0
    th = a.tier == 'thorough'
    for r in parallel(worker, [(bindir, i, 400 if not th else 30000) for i in range(32)]):
        rep.merge(r)
    for r in parallel(repl_worker, [(bindir, i, 40 if not th else 1000) for i in range(16)]):
        rep.merge(r)
    return rep.finish(
        rule='every transform of the tf table on arguments of lengths 0..5, 20, 31..33, 55..57, 63..65, 119/120, 252..254, 300 (prefix-compact-size also 65535/65536), strings and integers; encode/decode pairs with every kind of '
             'single-character corruption; modular add/sub with and without a group; EC key transforms and signature verification against the reference curve arithmetic; inline form and opcode form compared with the command form; '
             'adversarial argument lists (judged for crashes only); a sample through the real btcdeb REPL and btcc. non-trivial = distinct tf line / inline expression whose output equalled the reference function',
        assumptions=['argument grammar = btcc grammar (ref/asm.py); multi-argument transforms are generated with operands that can be delivered as pushes (operands compiling to OP_0/OP_n/OP_1NEGATE are a recorded finding)',
                     'byte order of jacobi-symbol operands is not stated: little- and big-endian readings both accepted', 'bech32(m)-encode: documented structure (witness version 1, hrp bcrt) + decode(encode(x)) = x',
                     'reverse of a decimal integer has no stated definition and is not judged'],
        min_events=1000)


if __name__ == '__main__':
    main_wrapper(main)
