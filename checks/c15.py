"""C15 — no input makes the tools crash or touch memory they do not own.

Events : exit status / terminating signal, ASan/UBSan reports (log_path, one process per case), 'terminate called',
         failed assertions, watchdog; valgrind memcheck errors (plain build, origins tracked) on a sample.
Oracle : the tool terminates by itself with a result or a diagnostic.  Violation = signal, sanitizer report,
         uncaught exception, assertion, repeated hang.  Key = tool : kind : innermost frame inside the repository : entry
         frame (line numbers stripped), so one defect is one finding however many inputs reach it.
Every behavioural monitor (C01..C14) also runs on the ASan+UBSan build and routes crashes to its own verdict; this
check adds structure-aware hostile input for the three main() functions and the interactive command loop.
"""
import sys, os, argparse, json, re, shutil, subprocess, time
sys.path.insert(0, os.path.dirname(os.path.dirname(os.path.abspath(__file__))))
from vf.common import *
from vf import build as vbuild, proc
from ref.script import *
from ref import secp, sign as rsign, tx as rtx, taproot
from checks import gen, c03, c07, c14

PROP = 'C15'
TF_NAMES = ['addr-to-scriptpubkey', 'add', 'bech32-decode', 'bech32-encode', 'bech32m-encode', 'base58chk-decode', 'base58chk-encode', 'combine-pubkeys', 'echo', 'hash160', 'hash256', 'hex', 'int', 'len',
            'jacobi-symbol', 'prefix-compact-size', 'pubkey-to-xpubkey', 'reverse', 'ripemd160', 'sha256', 'scriptpubkey-to-addr', 'sub', 'tagged-hash', 'taproot-tweak-pubkey', 'tweak-pubkey', 'verify-sig',
            'verify-sig-compact', 'bogus']
INLINE = ['echo', 'hex', 'int', 'reverse', 'sha256', 'ripemd160', 'hash256', 'hash160', 'base58chkenc', 'base58chkdec', 'bech32enc', 'bech32dec', 'verify_sig', 'combine_pubkeys', 'tweak_pubkey', 'pubkey_to_xpubkey',
          'addr_to_spk', 'spk_to_addr', 'add', 'sub', 'jacobi', 'tagged_hash', 'taproot_tweak_pubkey', 'prefix_compact_size', 'nosuchfn', '']


def rb(rng, n):
    return bytes(rng.randrange(256) for _ in range(n))


def hostile_arg(rng):
    r = rng.random()
    if r < 0.15:
        return rng.choice(['', '0x', '0', '-1', '1', '16', '17', 'OP_DUP', 'OP_xff', 'OP_', 'x', '[', ']', '[]', '[[', ']]', '()', ')', '(', 'a(', 'sha256()', 'sha256((', '0x0', '0xg', '-', '--', '#', ' ', '\t', '"', "'", '\\'])
    if r < 0.3:
        return '0x' + rb(rng, rng.choice([1, 2, 4, 5, 20, 31, 32, 33, 64, 65, 72, 520, 521, 1000])).hex()
    if r < 0.4:
        return str(rng.choice([0, 1, -1, 2 ** 31, -2 ** 31, 2 ** 63 - 1, -2 ** 63, 2 ** 63, 10 ** 30, 255, 256]))
    if r < 0.42:
        # function calls nested to any depth
        d = rng.choice([2, 3, 10, 100, 255, 256, 257, 1000, 20000])
        fns = [rng.choice(['int', 'hex', 'echo', 'reverse', 'sha256', 'hash160'])] if d > 300 else [rng.choice(INLINE[:12]) for _ in range(3)]
        return ''.join(rng.choice(fns) + '(' for _ in range(d)) + rng.choice(['01', '0x', 'abc', '']) + ')' * rng.choice([d, d, d - 1, d + 1])
    if r < 0.5:
        fn = rng.choice(INLINE)
        inner = hostile_arg(rng) if rng.random() < 0.7 else rng.choice(['', 'abc', '1111111111111111111114oLvT2', 'bc1qw508d6qejxtdg4y5r3zarvary0c5xw7kv8f3t4'])
        return '%s(%s)' % (fn, inner.replace(' ', ''))
    if r < 0.6:
        d = rng.choice([1, 2, 5, 20, 200, 255, 256, 257, 1000, 5000, 30000])
        return '[' * d + rng.choice(['OP_1', '', '0x1234', 'zz']) + ']' * rng.choice([d, d - 1, d + 1, 0])
    if r < 0.68:
        return rng.choice(['A', 'f', '1', '[', '0x', 'OP_'])[0:2] * rng.choice([100, 1024, 5000, 70000])
    if r < 0.76:
        return rng.choice(['1111111111111111111114oLvT2', '1111111111111111111114oLvT3', 'bc1qw508d6qejxtdg4y5r3zarvary0c5xw7kv8f3t4', 'bcrt1p', 'tb1', 'bc1', '1', 'xyz'])
    if r < 0.80:
        # checksum-valid encodings whose payload is unusual: bech32(m) with 0, 1, 2 ... data symbols, any witness version symbol,
        # bits that do not regroup into bytes; base58check over 0..4 payload bytes - bare or under the matching decoder
        return odd_encoding(rng) if rng.random() < 0.5 else decoder_call(rng, inline=True)
    if r < 0.84:
        return bytes(rng.choice([0x01, 0x7f, 0x80, 0xff, 0x1b, 0x0a]) for _ in range(rng.randint(1, 8))).decode('latin1').replace('\x00', '')
    return rng.choice(c07.NAMES if hasattr(c07, 'NAMES') else ['DUP'])


def odd_encoding(rng):
    """a checksum-valid bech32 / bech32m / base58check string with an unusual payload"""
    from ref import codec
    if rng.random() < 0.7:
        n5 = rng.choice([0, 0, 1, 2, 3, 7, 8, 9, 33, 52, 53, 54, 100])
        return codec.bech32_encode(rng.choice(['a', 'bc', 'tb', 'bcrt', 'x' * 20, '1']), [rng.randrange(32) for _ in range(n5)], rng.choice([1, 0x2bc830a3]))
    return codec.b58check_encode(rb(rng, rng.choice([0, 0, 1, 2, 4, 21, 33])))


def decoder_call(rng, inline=False):
    """a decoding transform applied to such a string: command form (`bech32-decode X`) or inline form (`bech32dec(X)`)"""
    if inline:
        return '%s(%s)' % (rng.choice(['bech32dec', 'base58chkdec', 'addr_to_spk']), odd_encoding(rng))
    return '%s %s' % (rng.choice(['bech32-decode', 'base58chk-decode', 'addr-to-scriptpubkey']), odd_encoding(rng))


def mutate_hex(rng, h):
    r = rng.random()
    if not h:
        return 'zz'
    if r < 0.25:
        return h[:rng.randrange(len(h))]
    if r < 0.5:
        i = rng.randrange(len(h))
        return h[:i] + rng.choice('0123456789abcdefg ') + h[i + 1:]
    if r < 0.7:
        b = bytearray(bytes.fromhex(h)) if len(h) % 2 == 0 else bytearray(b'\x00')
        for _ in range(rng.choice([1, 1, 2, 8])):
            b[rng.randrange(len(b))] = rng.choice([0, 1, 0xfd, 0xfe, 0xff, 0x80, rng.randrange(256)])
        return b.hex()
    if r < 0.8:
        return h + rb(rng, rng.choice([1, 4, 100])).hex()
    if r < 0.9:
        return h + h
    return ''


def tx_pair(rng):
    otype = rng.choice(c03.TYPES)
    sat = rng.choice(c03.SATS[otype])
    sc = c03.build(rng, otype, sat)
    return sc


def hostile_pair(rng):
    """a funding/spending pair with one structural lie: out-of-range prevout index, weird witness shapes, ..."""
    sc = tx_pair(rng)
    tx, fund, idx = sc['tx'], sc['fund'], sc['idx']
    if rng.random() < 0.12:
        # SIGHASH_SINGLE with the input index at / beyond the number of outputs (legacy: the "one" digest; the outputs must not be read)
        for _ in range(20):
            sc = c03.build(rng, rng.choice(['p2pkh', 'p2pk', 'p2wpkh']), 'valid')
            if sc['idx'] >= 1:
                break
        tx, fund, idx = sc['tx'], sc['fund'], sc['idx']
        if idx >= 1:
            tx.vout = (list(tx.vout) * 5)[:rng.choice([idx, idx, idx - 1, idx + 1])]
            ht = rng.choice([3, 3, 0x83])
            if tx.wit and tx.wit[idx]:
                w = list(tx.wit[idx]); w[0] = w[0][:-1] + bytes([ht]); tx.wit[idx] = w
            else:
                ops = decode_all(tx.vin[idx][2]) or []
                if ops and ops[0][1]:
                    sig = ops[0][1][:-1] + bytes([ht])
                    tx.vin[idx][2] = push_only(sig) + b''.join(push_only(d) for o, d in ops[1:] if d is not None)
            return 'sighash-single-at-output-count', rtx.ser_tx(tx).hex(), rtx.ser_tx(fund).hex()
    if rng.random() < 0.12:
        # scripts that end in the middle of a push (or carry an undefined opcode): legal bytes for a transaction, undecodable as a script
        sc = c03.build(rng, rng.choice(['p2pkh', 'p2pk', 'p2sh-multisig', 'p2wsh', 'p2sh-hashlock']), 'valid')
        tx, fund, idx = sc['tx'], sc['fund'], sc['idx']
        tail = rng.choice([bytes([5, 1, 2]), bytes([0x4c]), bytes([0x4d, 0xff]), bytes([0x4e, 1, 0, 0]), bytes([0x4c, 200, 1]), bytes([75]), bytes([0xff]), bytes([0x01])])
        where = rng.choice(['scriptsig', 'scriptsig-only', 'scriptpubkey', 'witness-script'])
        if where == 'scriptsig':
            tx.vin[idx][2] = tx.vin[idx][2] + tail
        elif where == 'scriptsig-only':
            tx.vin[idx][2] = bytes([OP_1]) + tail
        elif where == 'scriptpubkey':
            fv = tx.vin[idx][1]
            v, spk0 = fund.vout[fv]
            fund.vout[fv] = (v, spk0 + tail)
            tx.vin[idx][0] = rtx.txid(fund)
        elif tx.wit and tx.wit[idx]:
            w = list(tx.wit[idx]); w[-1] = w[-1] + tail; tx.wit[idx] = w
        return 'undecodable-' + where, rtx.ser_tx(tx).hex(), rtx.ser_tx(fund).hex()
    k = rng.choice(['vout-out-of-range', 'vout-huge', 'empty-witness-items', 'control-sizes', 'only-annex', 'witness-on-legacy', 'no-outputs-in-funding', 'many-witness-items', 'big-witness-item', 'as-is', 'swap', 'same'])
    if k == 'vout-out-of-range':
        tx.vin[idx][1] = len(fund.vout) + rng.choice([0, 1, 5])
    elif k == 'vout-huge':
        tx.vin[idx][1] = rng.choice([0xffffffff, 0x7fffffff, 65536])
    elif k == 'empty-witness-items':
        tx.wit[idx] = [b''] * rng.choice([1, 2, 3, 5])
    elif k == 'control-sizes':
        w = list(tx.wit[idx]) or [b'\x01', b'\x51', b'\xc0' + bytes(32)]
        w[-1] = rb(rng, rng.choice([0, 1, 32, 33, 34, 64, 65, 66, 4129, 4130, 4161]))
        tx.wit[idx] = w
    elif k == 'only-annex':
        tx.wit[idx] = [b'\x50' + rb(rng, 3)] * rng.choice([1, 2])
    elif k == 'witness-on-legacy':
        tx.wit[idx] = [rb(rng, 5), rb(rng, 33)]
    elif k == 'no-outputs-in-funding':
        fund.vout = []
        tx.vin[idx][0] = rtx.txid(fund)
    elif k == 'many-witness-items':
        tx.wit[idx] = [b'\x01'] * rng.choice([100, 1001, 3000]) + list(tx.wit[idx])[-2:]
    elif k == 'big-witness-item':
        tx.wit[idx] = [rb(rng, rng.choice([521, 10000, 70000]))] + list(tx.wit[idx])
    elif k == 'swap':
        return k, rtx.ser_tx(fund).hex(), rtx.ser_tx(tx).hex()
    elif k == 'same':
        return k, rtx.ser_tx(tx).hex(), rtx.ser_tx(tx).hex()
    return k, rtx.ser_tx(tx).hex(), rtx.ser_tx(fund).hex()


def gen_btcc(rng):
    n = rng.choice([0, 1, 1, 2, 3, 6, 30])
    return ('btcc', 'btcc', [hostile_arg(rng) for _ in range(n)], b'', 'pipe', None)


def gen_btcdeb_cli(rng):
    args = []
    stdin = b''
    mode = rng.choice(['ptyin', 'ptyin', 'pipe', 'ptyout'])
    r = rng.random()
    kind = 'cli'
    if r < 0.35:
        kind, txh, finh = hostile_pair(rng)
        kind = 'pair:' + kind
        if rng.random() < 0.3:
            txh = mutate_hex(rng, txh)
        if rng.random() < 0.2:
            finh = mutate_hex(rng, finh)
        if rng.random() < 0.4:
            # "--tx=amount1,amount2,..:<hex>": fewer, as many or more amounts than the transaction has inputs, well-formed or not
            nam = rng.choice([1, 1, 2, 3, 5, 40])
            txh = ','.join(rng.choice(['0.1', '0.00000001', '1', '0', '20999999.99999999', '21000001', '-1', '', 'abc', '1e3', '0.123456789', '.5', '92233720368.54775807', '184467440737.09551616'])
                           for _ in range(nam)) + ':' + txh
        args += ['--tx=' + txh, '--txin=' + finh]
        if rng.random() < 0.4:
            args.append('--select=' + rng.choice(['0', '1', '2', '5', '-1', '-2', '99999999999', 'abc', '', '2147483648', '4294967296']))
        if rng.random() < 0.2:
            args += ['OP_1']
    else:
        for _ in range(rng.choice([0, 1, 1, 2, 3])):
            o = rng.choice(['--tx=', '--txin=', '--modify-flags=', '--select=', '--pretend-valid=', '--dataset=', '--debug=', '-f', '-P', '-s', '-X', '-D', '-x', '-i', '-z', '-q', '-v', '-d', '-V', '-h', '--bogus', '-Z', '--'])
            if o.endswith('=') or o in ('-f', '-P', '-s', '-X', '-D', '-x', '-i'):
                v = rng.choice([hostile_arg(rng), rng.choice(['+P2SH', '-P2SH,', '0.1:', '1,2,3:', ':', ',', '0.1,0.2:00', 'p2pkh', 'p2ts', 'nosuchset', 'a:b', 'a:b,c', ':a', 'a:', 'sighash,foo', '',
                                                               '0.00000001:0200000000', '1' * 400 + ':00'])])
                args.append(o + v)
            else:
                args.append(o)
        for _ in range(rng.choice([0, 1, 1, 2, 4])):
            args.append(hostile_arg(rng))
    if mode != 'ptyin':
        stdin = rng.choice([b'', b'\n', b'OP_1\n', b'[OP_1 OP_2 OP_ADD]\n', b'[' * 50 + b'\n', b'0x' + b'ab' * 600 + b'\n', rb(rng, 64), b'A' * 1023 + b'\n', b'A' * 1024 + b'\n', b'A' * 5000, b'\x00\n', hostile_arg(rng).encode('latin1') + b'\n'])
    return ('btcdeb', 'cli:' + kind, [a.replace('\x00', '') for a in args], stdin, mode, None)


REPL_CMDS = ['step', 'rewind', 'stack', 'altstack', 'vfexec', 'print', 'help', 'help step', 'exec', 'tf', 'tf -h', '', 'bogus', 'step 5', 'rewind 2', 'exec OP_CODESEPARATOR', 'exec OP_CODESEPARATOR OP_1',
             'exec OP_IF', 'exec OP_ENDIF', 'exec OP_ELSE', 'exec OP_TOALTSTACK', 'exec OP_FROMALTSTACK', 'exec OP_CHECKSIG', 'exec OP_CHECKMULTISIG', 'exec 0 0 OP_CHECKMULTISIG', 'exec OP_DROP', 'exec OP_DEPTH',
             'exec OP_RETURN', 'exec OP_VERIF', 'exec 0x', 'exec 0000000001 OP_1ADD', 'exec ' + 'OP_1 ' * 1100, 'exec OP_x4c', 'exec OP_PUSHDATA1', 'exec 4c', 'exec 05', 'exec ff', 'exec -1', 'exec 99999999999',
             'exec OP_CHECKSIGADD', 'exec OP_CAT', 'exec OP_2DIV', 'exec OP_PICK', 'exec OP_ROLL', 'exec 1000 OP_PICK', 'exec OP_CHECKLOCKTIMEVERIFY', 'exec OP_SHA256', '# comment', 'step # x']


CODESEP_EXECS = ['exec OP_CODESEPARATOR OP_VERIFY', 'exec OP_CODESEPARATOR OP_RETURN', 'exec OP_CODESEPARATOR', 'exec OP_CODESEPARATOR OP_0 OP_0 OP_CHECKSIG', 'exec OP_1 OP_CODESEPARATOR OP_DROP OP_DROP OP_DROP OP_DROP',
                 'exec OP_CODESEPARATOR OP_CODESEPARATOR OP_ENDIF', 'exec OP_0 OP_0 OP_CHECKSIG', 'exec OP_0 02' + '11' * 32 + ' OP_CHECKSIG', 'exec OP_0 OP_0 OP_0 OP_0 OP_CHECKMULTISIG',
                 'exec OP_CODESEPARATOR OP_0 OP_0 OP_0 OP_0 OP_CHECKMULTISIG OP_VERIFY', 'exec OP_CODESEPARATOR 1000 OP_PICK', 'exec OP_CODESEPARATOR 0000000001 OP_1ADD', 'exec OP_CODESEPARATOR OP_BOGUS',
                 'exec OP_0 OP_IF OP_CODESEPARATOR OP_ENDIF OP_VERIFY', 'exec OP_CODESEPARATOR ' + 'OP_1 ' * 40 + 'OP_VERIFY OP_0 OP_VERIFY']


def gen_repl_codesep(rng):
    """sessions in which OP_CODESEPARATOR is executable (CONST_SCRIPTCODE off, or segwit v0) and the script still has
    signature checks ahead: exec lines that move the signature-hash start and then fail / succeed, then the checks."""
    pk = bytes([2]) + bytes([rng.randrange(1, 250)]) * 32
    units = [bytes([OP_0, OP_0, OP_CHECKSIG]), bytes([OP_0]) + push_data(pk) + bytes([OP_CHECKSIG]), bytes([OP_0, OP_0, OP_1]) + push_data(pk) + bytes([OP_1, OP_CHECKMULTISIG]),
             bytes([OP_NOP]), bytes([OP_1, OP_DROP]), bytes([OP_CODESEPARATOR]), bytes([OP_DROP])]
    s = b''.join(rng.choice(units) for _ in range(rng.choice([2, 3, 5, 9])))
    args = ['--modify-flags=' + rng.choice(['-CONST_SCRIPTCODE', '-CONST_SCRIPTCODE,-STRICTENC', '-CONST_SCRIPTCODE,-NULLFAIL,-STRICTENC']), '0x' + s.hex()]
    if rng.random() < 0.3:
        args.append('0x' + bytes(rng.choice([1, 33, 71])).hex())
    cmds = []
    for _ in range(rng.choice([3, 6, 12, 25])):
        q = rng.random()
        cmds.append(rng.choice(CODESEP_EXECS) if q < 0.4 else 'step' if q < 0.8 else rng.choice(['rewind', 'print', 'stack', 'rewind']))
    return ('btcdeb', 'repl:codesep', args, ('\n'.join(cmds) + '\n').encode(), 'repl', None)


def gen_repl(rng):
    r = rng.random()
    args = []
    kind = 'plain'
    if rng.random() < 0.12:
        return gen_repl_codesep(rng)
    if r < 0.5:
        st = gen.rnd_stack(rng, sigs=True)[:4]
        s = gen.gen_deep(rng, BASE, STANDARD, rng.choice([1, 4, 10, 30]), st, sigops=True)
        if rng.random() < 0.1:
            s = gen.gen_bytes(rng, sigops=True)
        args = ['0x' + s.hex()] + ['0x' + x.hex() for x in st]
        if rng.random() < 0.2:
            args.insert(0, '-z')
    elif r < 0.9:
        try:
            if rng.random() < 0.3:
                hk, txh, finh = hostile_pair(rng)
                args = ['--tx=' + txh, '--txin=' + finh]
                kind = 'spend:hostile'
            else:
                sc = tx_pair(rng)
                args = ['--tx=' + rtx.ser_tx(sc['tx']).hex(), '--txin=' + rtx.ser_tx(sc['fund']).hex()]
                kind = 'spend:%s' % sc['otype'] if 'otype' in sc else 'spend'
        except Exception:
            args = ['OP_1']
    else:
        args = [rng.choice(['', 'OP_1', '-X', '-Xp2pkh', '--dataset=p2ts'])]
        args = [a for a in args if a]
    cmds = []
    for _ in range(rng.choice([3, 8, 20, 60])):
        q = rng.random()
        if q < 0.45:
            cmds.append(rng.choice(['step', 'step', 'step', 'rewind', 'rewind', 'print', 'stack']))
        elif q < 0.7:
            cmds.append(rng.choice(REPL_CMDS if rng.random() < 0.8 else CODESEP_EXECS))
        elif q < 0.9:
            nm = rng.choice(TF_NAMES)
            if rng.random() < 0.15:
                cmds.append('tf ' + decoder_call(rng))
                continue
            cmds.append('tf %s %s' % (nm, ' '.join(hostile_arg(rng).replace('\n', '').replace('\r', '') for _ in range(rng.choice([0, 1, 1, 2, 3, 4])))))
        else:
            cmds.append('exec ' + ' '.join(rng.choice([hostile_arg(rng).replace('\n', ''), 'OP_' + rng.choice(list(OP))]) for _ in range(rng.choice([1, 2, 5]))))
    # the scripted REPL feeds GNU readline from a pipe, a mode readline is not made for (it redisplays the whole line for
    # every character: quadratic time, and its 1024-byte display buffers overflow - seen with lines of 1011..2000 characters): keep lines under 900 characters there
    cmds = [c[:900] for c in cmds]
    text = '\n'.join(c.replace('\x00', '') for c in cmds) + '\n'
    if rng.random() < 0.1:
        text += rng.choice(['"unterminated', "'unterminated", 'tf echo "a', 'exec \\'])      # no trailing newline: EOF inside a quote
    return ('btcdeb', 'repl:' + kind.split(':')[0], args, text.encode('latin1', 'replace'), 'repl', None)


def gen_tap(rng):
    sk = rsign.rnd_sk(rng)
    ik = secp.xonly_from_sec(sk)
    n = rng.choice([1, 1, 2, 3, 5, 17])
    scripts = ['0x' + (push_only(secp.xonly_from_sec(sk + i + 1)) + bytes([OP_CHECKSIG])).hex() for i in range(n)]
    args = []
    r = rng.random()
    key = ik.hex()
    if rng.random() < 0.25:
        key = rng.choice(['', '00' * 32, 'ff' * 32, ik.hex()[:-2], ik.hex() + '00', 'zz' * 32, '0x' + ik.hex(), (5).to_bytes(32, 'big').hex(), hostile_arg(rng)])
    cnt = str(n) if rng.random() < 0.75 else rng.choice(['0', '-1', '1025', '1024', str(n + 1), str(max(0, n - 1)), 'abc', '', '99999999999999999999'])
    if rng.random() < 0.2:
        scripts[rng.randrange(n)] = rng.choice(['', '0x', 'zz', '0x4c', '0xff', '[', hostile_arg(rng)])
    pos = [key, cnt] + scripts
    have_tx = rng.random() < 0.6
    if have_tx:
        # a funding tx paying the right output key, or a hostile one
        leaves = [taproot.tapleaf_hash(bytes.fromhex(s[2:])) if re.match(r'^0x([0-9a-f]{2})*$', s) else b'\x00' * 32 for s in scripts]
        amount = 5000
        spk = rsign.spk_p2tr(rb(rng, 32))
        if n == 1 and re.match(r'^0x([0-9a-f]{2})+$', scripts[0]) and key == ik.hex():
            # the right output key (single leaf: the tree is unambiguous) - as a proper P2TR output, or at the END of some other script
            q, par = taproot.output_key(ik, leaves[0])
            spk = rng.choice([rsign.spk_p2tr(q), rsign.spk_p2tr(q), bytes([OP_0, 32]) + q, bytes([OP_2, 32]) + q, bytes([OP_1, 33, 0]) + q, bytes([OP_DUP]) + q, q, bytes([OP_16, 32]) + q,
                              bytes([OP_HASH160, 20]) + q[:20] + bytes([OP_EQUAL]), bytes([OP_0, 20]) + q[:20], bytes([OP_1, 32]) + q + bytes([OP_NOP])])
        fund = rsign.funding_tx(rng, [(amount, spk)] * rng.choice([1, 2]))
        nin = rng.choice([1, 1, 1, 2, 3])
        idx = rng.randrange(nin)
        prev = [(rtx.txid(fund), 0) if i == idx else (rb(rng, 32), 0) for i in range(nin)]
        tx = rsign.spending_tx(rng, prev, nout=1, version=2, locktime=0)
        tx.wit = None
        if rng.random() < 0.2:
            tx.vin[idx][1] = rng.choice([2, 7, 0xffffffff])
        txh, finh = rtx.ser_tx(tx).hex(), rtx.ser_tx(fund).hex()
        if rng.random() < 0.25:
            txh = mutate_hex(rng, txh)
        if rng.random() < 0.15:
            finh = mutate_hex(rng, finh)
        args += ['--tx=' + txh]
        if rng.random() < 0.9:
            args += ['--txin=' + finh]
    if rng.random() < 0.3:
        args.append('--sig=' + rng.choice([rb(rng, 64).hex(), rb(rng, 65).hex(), '', 'zz', rb(rng, 1).hex(), rb(rng, 200).hex()]))
    if rng.random() < 0.15:
        args.append('--privkey=' + rng.choice([rb(rng, 32).hex(), 'abc', '']))
    if rng.random() < 0.2:
        args.append('--addrprefix=' + rng.choice(['tb', 'bc', '', 'x' * 100, 'B1', '\x7f']))
    args += pos
    if rng.random() < 0.6:
        args.append(rng.choice([str(rng.randrange(n)), str(n), '-1', 'abc', '', str(2 ** 40)]))
        for _ in range(rng.choice([0, 0, 1, 3])):
            args.append(rng.choice(['%SIG%', hostile_arg(rng)]))
    mode = rng.choice(['pipe', 'pipe', 'pty'])
    return ('tap', 'tap', [a.replace('\x00', '') for a in args], b'', mode, None)


EXT_OPS = ['OP_CAT', 'OP_SUBSTR', 'OP_LEFT', 'OP_RIGHT', 'OP_INVERT', 'OP_AND', 'OP_OR', 'OP_XOR', 'OP_2MUL', 'OP_2DIV', 'OP_MUL', 'OP_DIV', 'OP_MOD', 'OP_LSHIFT', 'OP_RSHIFT']
EXT_OPERANDS = ['0x', '0x00', '0x80', '0x0080', '0x00000080', '0x0000', '0x01', '0x81', '0xff', '0xffffff7f', '0xffffffff', '0x0000008000', '0xffffffffff7f', '0xffffffffffffff7f', '0xffffffffffffffff',
                '0x0000000000000080', '0x00000000000000008000', '0x40', '0x3f', '0xc0', '0x7f', '0x' + 'ab' * 520, '0x' + '00' * 100, '1', '0', '-1', '63', '64', '65', '2147483647', '-2147483648']


def gen_ext(rng):
    """the re-enabled opcodes on awkward operands, with and without MINIMALDATA (non-canonical zeros then reach the arithmetic)"""
    args = ['-z'] if rng.random() < 0.9 else []
    if rng.random() < 0.6:
        args.append('--modify-flags=' + rng.choice(['-MINIMALDATA', '-MINIMALDATA,-MINIMALIF', '-MINIMALDATA,-CLEANSTACK']))
    n = rng.choice([1, 2, 2, 3])
    body = ' '.join(rng.choice(EXT_OPERANDS) for _ in range(n)) + ' ' + ' '.join(rng.choice(EXT_OPS) for _ in range(rng.choice([1, 1, 2])))
    mode = rng.choice(['ptyin', 'pipe'])
    if mode == 'pipe':
        return ('btcdeb', 'cli:ext', args, ('[' + body + ']\n').encode(), 'pipe', None)
    return ('btcdeb', 'cli:ext', args + ['[' + body + ']'], b'', 'ptyin', None)


def expand_stdin(spec):
    """stdin given as a recipe [prefix, repeated unit, count, suffix] (inputs of many megabytes are not stored in witnesses)"""
    return spec[0].encode('latin1') + spec[1].encode('latin1') * spec[2] + spec[3].encode('latin1')


def gen_huge_token(rng):
    """a script on stdin that is one token of many megabytes - more than the stack of the process could hold if a function kept a
    copy of it in a local array: digits only, a number followed by hex digits, hex only, inside brackets, as function argument"""
    n = rng.choice([300000, 2000000, 8400000, 9000000, 12000000])
    pre, unit, suf = rng.choice([('1', 'a', ''), ('', '1', ''), ('-5', 'f', ''), ('0x', 'ab', ''), ('[1', 'a', ']'), ('[', '7', ']'), ('sha256(1', 'a', ')'), ('OP_1 9', 'b', ' OP_2'), ('', 'OP_1 ', '')])
    spec = [pre, unit, n // len(unit), suf + '\n']
    return ('btcdeb', 'huge-token', [], spec, 'pipe', None)


def gen_sig_context(rng):
    """real spends whose signatures carry undefined hash-type bytes (0x00, 0x04, 0x20 ...: consensus-legal without STRICTENC) or
    stand in the wrong order of a multisig - the paths on which the signature checker formats and logs what it was given"""
    otype = rng.choice(['p2pkh', 'p2pk', 'multisig', 'multisig', 'p2sh-multisig', 'p2sh-multisig', 'p2wpkh', 'p2wsh', 'p2sh-p2wsh'])
    sat = rng.choice([x for x in ('valid', 'valid', 'wrong-order', 'wrong-key', 'missing-sig') if x in c03.SATS[otype]])
    sc = c03.build(rng, otype, sat)
    tx, idx = sc['tx'], sc['idx']
    ht = rng.choice([0x00, 0x00, 0x04, 0x20, 0x44, 0x80, 0xff, 0x01])

    def mut(b):
        return b[:-1] + bytes([ht]) if len(b) >= 60 and b[:1] == b'\x30' else b
    if tx.wit and tx.wit[idx]:
        tx.wit[idx] = [mut(x) for x in tx.wit[idx]]
    ops = decode_all(tx.vin[idx][2]) or []
    tx.vin[idx][2] = b''.join(push_only(mut(d)) if o <= OP_PUSHDATA4 else bytes([o]) for o, d in ops)
    args = ['--tx=' + rtx.ser_tx(tx).hex(), '--txin=' + rtx.ser_tx(sc['fund']).hex()]
    if rng.random() < 0.7:
        args.insert(0, '--modify-flags=' + rng.choice(['-STRICTENC', '-STRICTENC,-NULLFAIL', '-STRICTENC,-DERSIG,-LOW_S,-NULLFAIL']))
    return ('btcdeb', 'sig-context:%s/%s' % (otype, sat), args, b'', rng.choice(['ptyin', 'ptyin', 'ptyout']), None)


def gen_verify_sig(rng):
    """the signature-verification transforms on every shape of public key (x-only, compressed, uncompressed, hybrid prefixes,
    wrong lengths) and signature (Schnorr, DER, compact), inline in btcc / btcdeb scripts and through `tf`"""
    sk = rng.randrange(1, secp.n)
    unc = secp.pub_from_sec(sk, compressed=False)
    x, y = unc[1:33], unc[33:]
    P = (int.from_bytes(x, 'big'), int.from_bytes(y, 'big'))
    msg = rb(rng, 32)
    key = rng.choice([bytes([2 + (P[1] & 1)]) + x, b'\x04' + x + y, bytes([6 + (P[1] & 1)]) + x + y, x, b'\x02' + rb(rng, 32), b'\x04' + rb(rng, 64), b'\x03' + x[:31], b'\x02' + x + b'\x00', b''])
    sig = rng.choice([rsign.sign_ecdsa(sk, msg, 1)[:-1], bytes.fromhex('3006020101020101'), rsign.sign_schnorr(sk, msg, 0), rb(rng, 64), rb(rng, 65), b'\x30' + rb(rng, 8), b''])
    fn = rng.choice(['verify_sig', 'verify_sig', 'verify_sig_compact'])
    expr = '%s([%s])' % (fn, ' '.join('0x' + v.hex() for v in (msg, key, sig)))
    r = rng.random()
    if r < 0.45:
        return ('btcc', 'verify-sig', rng.choice([[expr], ['OP_1', '[%s]' % expr], [expr, 'OP_VERIFY']]), b'', 'pipe', None)
    if r < 0.75:
        return ('btcdeb', 'verify-sig', ['[%s]' % expr] if rng.random() < 0.5 else [], b'' if False else ('[%s]\n' % expr).encode(), rng.choice(['pipe', 'ptyout']), None)
    tfn = fn.replace('_', '-')
    return ('btcdeb', 'verify-sig', ['OP_1'], ('tf %s 0x%s 0x%s 0x%s\n' % (tfn, msg.hex(), key.hex(), sig.hex())).encode(), 'repl', None)


GENS = [(gen_btcc, 8), (gen_btcdeb_cli, 16), (gen_repl, 12), (gen_tap, 8), (gen_ext, 4), (gen_verify_sig, 2), (gen_huge_token, 1), (gen_sig_context, 2)]


def line_editor_safe(stdin, mode):
    """Where the input goes through GNU readline (terminal on stdin, scripted REPL), ESC and - in the C locale, where
    readline converts them to ESC-prefixed keys - bytes >= 0x80 are editing commands of the line editor, not input of
    btcdeb: `ESC 9 9 9 9 9 9 9 9 9 x` makes readline itself repeat a command 10^9 times (observed as a "hang" inside
    rl_vi_eword).  Such bytes are not part of any command btcdeb gets to see; they are left out of those modes only."""
    if mode in ('repl', 'pty', 'ptyin'):
        return bytes(b for b in stdin if b != 0x1b and b < 0x80)
    return stdin


def worker(job):
    bindir, idx, n = job
    rng = sub_rng(PROP, idx)
    part = Partial()
    wd = scratch('c15')
    try:
        pool = [g for g, w in GENS for _ in range(w)]
        for i in range(n):
            g = rng.choice(pool)
            try:
                tool, kind, args, stdin, mode, env = g(rng)
                spec = stdin if isinstance(stdin, list) else None
                stdin = line_editor_safe(expand_stdin(spec) if spec else stdin, mode)
            except Exception as e:
                part.inconc('generator:%s' % type(e).__name__)
                continue
            if sum(len(a) + 1 for a in args) > 120000 or any(len(a) > 100000 for a in args):
                continue
            sub = os.path.join(wd, 'r%d' % i)
            os.makedirs(sub, exist_ok=True)
            history = None
            if tool == 'btcdeb' and mode in ('pty', 'repl') and rng.random() < 0.15:
                # fault injection: the interactive loop appends every command to ./.btcdeb_history - here that file cannot be opened
                # (the name is taken by a directory; works for root too, unlike a read-only directory)
                if rng.random() < 0.5:
                    os.makedirs(os.path.join(sub, '.btcdeb_history'), exist_ok=True)
                    history = 'cannot-be-opened'
                else:
                    # ... or it is there already with content no session of btcdeb wrote: empty lines, NUL bytes, lines longer than the reader's buffer
                    with open(os.path.join(sub, '.btcdeb_history'), 'wb') as fh:
                        for _ in range(rng.choice([1, 3, 20])):
                            fh.write(rng.choice([b'\n', b'\x00\n', b'\x00step\n', b'step\n', b'exec ' + b'OP_1 ' * 400 + b'\n', b'x' * 1023 + b'\n', b'x' * 1024 + b'\n', b'\\\n', b'tf echo "a\\', rb(rng, 40) + b'\n', b'no newline at the end']))
                    history = 'hostile-content'
                part.count('fault_injection', 'history-file-' + history)
            r = proc.run([os.path.join(bindir, tool)] + args, sub, stdin=stdin, mode=mode, timeout=40 if not spec else 300, extra_env=env)
            shutil.rmtree(sub, ignore_errors=True)
            part.evaluations += 1
            part.count('tool', tool + '/' + kind.split(':')[0])
            part.count('termination', 'exit-%s' % r.rc if r.sig is None and not r.timeout else ('signal-%s' % r.sig if r.sig else 'timeout'))
            if r.flood:
                part.inconc('output-over-64MB:' + tool)
                continue
            if r.abnormal:
                key = r.crash_key(tool)
                part.violation(key, dict(tool=tool, kind=kind, argv=list(args), stdin=stdin.decode('latin1')[:400000] if not spec else '', stdin_recipe=spec, history_file=history, mode=mode, run={k: v for k, v in r.brief().items() if k in ('rc', 'sig', 'timeout', 'stderr', 'sanlog')}))
                continue
            part.nontrivial.add(nt_hash(tool, tuple(args), stdin if not spec else repr(spec).encode(), mode))
            part.sample(dict(tool=tool, kind=kind, argv=[a[:80] for a in args[:6]], mode=mode, exit=r.rc), limit=1)
    finally:
        cleanup_scratch(wd)
    return part.dump()


VG_ERR = re.compile(r'ERROR SUMMARY: (\d+) errors')


def memcheck_worker(job):
    plain, idx, n = job
    rng = sub_rng(PROP, 'vg', idx)
    part = Partial()
    wd = scratch('c15v')
    try:
        pool = [gen_btcc, gen_btcdeb_cli, gen_btcdeb_cli, gen_repl, gen_tap, gen_sig_context, gen_sig_context, gen_verify_sig]
        for i in range(n):
            g = rng.choice(pool)
            try:
                tool, kind, args, stdin, mode, env = g(rng)
                stdin = line_editor_safe(stdin, mode)
            except Exception:
                continue
            if sum(len(a) for a in args) > 20000:
                continue
            sub = os.path.join(wd, 'v%d' % i)
            os.makedirs(sub, exist_ok=True)
            cmd = ['valgrind', '-q', '--error-exitcode=99', '--track-origins=yes', '--errors-for-leak-kinds=none', '--leak-check=no', '--log-file=' + os.path.join(sub, 'vg.log'),
                   os.path.join(plain, tool)] + args
            r = proc.run(cmd, sub, stdin=stdin, mode='repl' if mode == 'repl' else ('pipe' if mode == 'pty' else mode), timeout=240, retry_timeout=False)
            log = ''
            try:
                log = open(os.path.join(sub, 'vg.log'), errors='replace').read()
            except OSError:
                pass
            shutil.rmtree(sub, ignore_errors=True)
            part.evaluations += 1
            part.count('memcheck', tool)
            if r.timeout:
                part.inconc('memcheck-timeout')
                continue
            if r.rc == 99 or 'Invalid read' in log or 'Invalid write' in log or 'uninitialised' in log or 'Mismatched' in log or 'Invalid free' in log:
                kind_m = re.search(r'==\d+== ((?:Invalid|Conditional|Use of|Mismatched|Syscall)[^\n]*)', log)
                what = re.sub(r'\d+', 'N', kind_m.group(1))[:50] if kind_m else 'error'
                frames = re.findall(r'(?:at|by) 0x[0-9A-F]+: (\S+) \(([^)]*)\)', log)
                inner = next((f for f, loc in frames if '.cpp' in loc or '.h:' in loc or '.c:' in loc), frames[0][0] if frames else 'unknown')
                inner = re.sub(r'\(.*', '', inner)
                part.violation('memcheck:%s:%s:%s' % (tool, re.sub(r'[^A-Za-z]+', '-', what).strip('-'), inner), dict(tool=tool, argv=[a[:1500] for a in args], stdin=stdin.decode('latin1')[:2000], log=log[:2500]))
                continue
            if r.sig is not None:
                part.violation('memcheck:%s:signal-%s' % (tool, r.sig), dict(tool=tool, argv=[a[:1500] for a in args], stdin=stdin.decode('latin1')[:2000], log=log[:2000]))
                continue
            part.nontrivial.add(nt_hash('vg', tool, tuple(args), stdin))
    finally:
        cleanup_scratch(wd)
    return part.dump()


# ---- coverage-guided stage (libFuzzer + ASan + UBSan on the library entry points, harness/vfuzz.cpp) -------------------
FUZZ_TARGETS = ['value', 'tf', 'tx', 'script', 'spend']


def fuzz_seed_corpus(rng, target, d, n):
    """grammar-valid starting points, so that the mutations start inside the interesting part of the input space"""
    os.makedirs(d, exist_ok=True)
    out = []
    for i in range(n):
        try:
            if target == 'value':
                b = rng.choice([hostile_arg(rng), c07.render(rng, gen.gen_deep(rng, BASE, STANDARD, 6, [])) if hasattr(c07, 'render') else hostile_arg(rng)]).encode('latin1', 'replace')
            elif target == 'tf' and i % 5 == 0:
                b = decoder_call(rng).encode()
            elif target == 'value' and i % 5 == 0:
                b = decoder_call(rng, inline=True).encode()
            elif target == 'tf':
                b = ('%s %s' % (rng.choice(TF_NAMES), ' '.join(hostile_arg(rng) for _ in range(rng.choice([0, 1, 2, 3]))))).encode('latin1', 'replace')
            elif target == 'tx':
                sc = tx_pair(rng)
                b = (rng.choice(['', '0.1:', '0.1,0.2:', '1,2,3:']) + rtx.ser_tx(rng.choice([sc['tx'], sc['fund']])).hex()).encode()
            elif target == 'script':
                sv = rng.choice([BASE, WITNESS_V0, TAPSCRIPT])
                st = gen.rnd_stack(rng, sigs=True)[:4]
                scr = gen.gen_deep(rng, sv, STANDARD, rng.choice([2, 6, 15]), st, sigops=True)
                b = bytes([{BASE: 0, WITNESS_V0: 1, TAPSCRIPT: 2}[sv], 0, 0, rng.choice([0x80, 0xc0]), len(st)])
                for it in st:
                    it = it[:39]
                    b += bytes([len(it)]) + it
                b += scr
            else:
                sc = tx_pair(rng)
                b = (rtx.ser_tx(sc['tx']).hex() + ' ' + rtx.ser_tx(sc['fund']).hex()).encode()
        except Exception:
            continue
        if len(b) > 19000:
            continue
        with open(os.path.join(d, 's%04d' % i), 'wb') as fh:
            fh.write(b)
        out.append(b)
    return len(out)


def fuzz_dict(path):
    toks = ['OP_' + n for n in OP] + TF_NAMES + ['[', ']', '(', ')', '0x', ',', ':', ' ', '-', '"', "'", '1111111111111111111114oLvT2', 'bc1', 'tb1', '2147483648', '-2147483648', '9223372036854775807']
    with open(path, 'w') as fh:
        for t in toks:
            fh.write('"%s"\n' % ''.join(c if c.isalnum() or c in '_-[](),: ' else '\\x%02x' % ord(c) for c in t))


def fuzz_worker(job):
    bindir, target, idx, runs = job
    cap_s = 100 if runs < 1000000 else 1800     # budget cap (not a verdict): a run that grows a slow corpus ends here; the executions done are reported
    rng = sub_rng(PROP, 'fuzz', target, idx)
    part = Partial()
    wd = scratch('c15f')
    try:
        corpus = os.path.join(wd, 'corpus')
        art = os.path.join(wd, 'art')
        os.makedirs(art)
        nseed = fuzz_seed_corpus(rng, target, corpus, 60)
        fuzz_dict(os.path.join(wd, 'dict'))
        env = dict(os.environ, VFUZZ_TARGET=target, ASAN_OPTIONS='detect_leaks=0:abort_on_error=0:allocator_may_return_null=1:quarantine_size_mb=8:symbolize=1', UBSAN_OPTIONS='print_stacktrace=1:symbolize=1',
                   ASAN_SYMBOLIZER_PATH='/usr/bin/llvm-symbolizer-14')
        # The run is cut into chunks of at most 400k executions, each a fresh process continuing on the corpus the previous one
        # left behind: the library leaks by design where its diagnostics call exit() (turned into a longjmp here) and leaks are
        # outside the property, so a long-lived process would only hit libFuzzer's own RSS watchdog.
        chunk = 400000
        done = 0
        t_end = time.time() + cap_s
        total_execs, last_cov, last_ft = 0, 0, 0
        seedv = rng.randrange(1, 2 ** 31)
        while done < runs and time.time() < t_end:
            nrun = min(chunk, runs - done)
            cmd = [os.path.join(bindir, 'vfuzz'), '-runs=%d' % nrun, '-seed=%d' % (seedv + done), '-max_len=%d' % (4096 if target in ('value', 'tf', 'script') else 16384),
                   '-max_total_time=%d' % max(30, int(t_end - time.time())), '-timeout=120', '-report_slow_units=120', '-rss_limit_mb=8000', '-malloc_limit_mb=3000',
                   '-artifact_prefix=' + art + '/', '-print_final_stats=1', '-dict=' + os.path.join(wd, 'dict'), '-verbosity=1', corpus]
            try:
                r = subprocess.run(cmd, env=env, cwd=wd, stdin=subprocess.DEVNULL, stdout=subprocess.DEVNULL, stderr=subprocess.PIPE, timeout=6 * 3600)
                err = r.stderr.decode('latin1', 'replace')
                rc = r.returncode
            except subprocess.TimeoutExpired as e:
                part.inconc('fuzz-wall-clock-watchdog:' + target)
                return part.dump()
            m = re.search(r'stat::number_of_executed_units:\s*(\d+)', err)
            execs = int(m.group(1)) if m else 0
            cov = [int(x) for x in re.findall(r'cov: (\d+)', err)]
            ft = [int(x) for x in re.findall(r'ft: (\d+)', err)]
            total_execs += execs
            last_cov = max(last_cov, cov[-1] if cov else 0)
            last_ft = max(last_ft, ft[-1] if ft else 0)
            done += nrun
            arts = sorted(f for f in os.listdir(art) if f.startswith(('crash-', 'timeout-', 'oom-', 'leak-')))
            if 'libFuzzer: out-of-memory (used' in err:
                # the process as a whole grew past the RSS watchdog (accumulated leaks / corpus): a budget matter, not a verdict
                part.inconc('fuzz-rss-watchdog:' + target)
                for f in arts:
                    os.remove(os.path.join(art, f))
                continue
            if rc != 0 or arts:
                data = b''
                if arts:
                    with open(os.path.join(art, arts[0]), 'rb') as fh:
                        data = fh.read()
                if 'libFuzzer: timeout' in err:
                    key = 'fuzz:%s:hang' % target
                elif 'libFuzzer: out-of-memory' in err:
                    key = 'fuzz:%s:out-of-memory' % target          # a single allocation beyond 3 GB asked for by the input
                else:
                    key = crash_key('fuzz-' + target, rc, err[-30000:])
                part.violation(key, dict(fuzz_target=target, input_hex=data.hex()[:60000], input_text=data.decode('latin1')[:1500], log=err[-3500:]))
                break
        part.evaluations += total_execs
        part.count('fuzz_execs', target, total_execs)
        part.count('fuzz_edges_covered(sum over processes)', target, last_cov)
        part.count('fuzz_processes', target)
        part.sample(dict(fuzz_target=target, execs=total_execs, seed_inputs=nseed, edges_covered=last_cov, features=last_ft), limit=1)
        if total_execs:
            part.nontrivial.add(nt_hash('fuzz', target, idx, total_execs))
    finally:
        cleanup_scratch(wd)
    return part.dump()


def main():
    ap = argparse.ArgumentParser()
    ap.add_argument('--tier', default=os.environ.get('VERIF_TIER', 'quick'))
    ap.add_argument('--replay')
    a = ap.parse_args()
    bindir = vbuild.build('asan')
    rep = Reporter(PROP, a.tier)
    if a.replay:
        d = json.load(open(a.replay))
        for w in d['witnesses']:
            if not w:
                continue
            print(json.dumps({k: v for k, v in w.items() if k != 'run'}, indent=1)[:3000])
            if w.get('tool'):
                wd = scratch('c15r')
                if w.get('history_file') == 'cannot-be-opened':
                    os.makedirs(os.path.join(wd, '.btcdeb_history'), exist_ok=True)
                elif w.get('history_file'):
                    open(os.path.join(wd, '.btcdeb_history'), 'wb').write(b'\x00\n\x00step\n' + b'x' * 1024 + b'\n')
                r = proc.run([os.path.join(bindir, w['tool'])] + w['argv'], wd, stdin=expand_stdin(w['stdin_recipe']) if w.get('stdin_recipe') else w.get('stdin', '').encode('latin1'), mode=w.get('mode', 'pipe'), timeout=300)
                print('re-run:', r.rc, r.sig, r.timeout, r.crash_key(w['tool']) if r.abnormal else 'terminates normally')
                print(r.stderr.decode('latin1')[-1500:])
                cleanup_scratch(wd)
        return 0
    th = a.tier == 'thorough'
    n = 700 if not th else 22000
    for r in parallel(worker, [(bindir, i, n) for i in range(16)]):
        rep.merge(r)
    plain = vbuild.build('plain')
    for r in parallel(memcheck_worker, [(plain, i, 10 if not th else 250) for i in range(16)]):
        rep.merge(r)
    fz = vbuild.build('fuzz')
    per = 3
    runs = {t: (40000 if not th else 4000000) for t in FUZZ_TARGETS}
    runs['spend'] = 10000 if not th else 800000          # (real signature verification: an order of magnitude slower)
    for r in parallel(fuzz_worker, [(fz, t, i, runs[t]) for t in FUZZ_TARGETS for i in range(per)]):
        rep.merge(r)
    return rep.finish(
        rule='one process per case, ASan+UBSan builds of btcc / btcdeb / tap: hostile argument lists (empty strings, 1..70,000-character tokens, bracket and inline-function nesting, every transform on adversarial arguments, control characters), '
             'option values (--tx/--txin truncated, corrupted, swapped, out-of-range prevout indices and --select values, hostile witness shapes; malformed flag / pair / dataset / debug lists), stdin variants for the non-interactive modes '
             '(empty, 1023/1024/5000-character lines, binary), interactive command sequences (step/rewind/exec/tf/print incl. exec OP_CODESEPARATOR, exec at the end, unterminated quotes) over plain scripts and --tx/--txin spends, tap with hostile keys, '
             'counts, indices, transactions and signatures; plus a valgrind-memcheck sample on the plain build; plus coverage-guided mutation (libFuzzer, clang ASan+UBSan) of five library entry points - Value / Value::parse_args, fn_tf, parse_tx / Instance::parse_transaction, Instance script sessions with rewinds and exec, and --tx/--txin sessions - each started from grammar-valid seeds and an opcode/function-name dictionary (evaluations include these executions; see samples for executions and edges covered per target). non-trivial = distinct (tool, argv, stdin, mode) that terminated by itself',
        assumptions=['the millions of executions of C01..C14 run on the same sanitizer build and report crashes under their own property',
                     'exit() with a diagnostic from inside a REPL command counts as terminating by itself', 'memory leaks are outside the property (detect_leaks=0)'],
        min_events=500)


if __name__ == '__main__':
    main_wrapper(main)
