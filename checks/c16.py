"""C16 — `exec a b c` applies operations exactly as the script would.

Events : Instance::eval(tokens) issued at every kind of session prefix, full state before and after, then
         the rest of the session stepped to the end.
Oracle : ref.script.Interp executes the same operation list on the same pre-state (stack, alt stack,
         condition stack, op count, flags, sigversion); error codes must match; position, remaining script,
         sequence number and done flag must be untouched; the remaining steps must behave as continued from
         the post-exec state.
"""
import sys, os, argparse, json
sys.path.insert(0, os.path.dirname(os.path.dirname(os.path.abspath(__file__))))
from vf.common import *
from vf import build as vbuild
from ref.script import *
from checks import gen, lockstep
from ref import asm
from checks.lockstep import parse_events, exc_kind

PROP = 'C16'
SVN = {0: 'base', 1: 'v0', 3: 'tapscript'}
NAMES = {v: k for k, v in OP.items()}


def tok_of_op(rng, o):
    n = NAMES[o]
    return rng.choice(['OP_' + n, 'OP_' + n, n]) if not n.isdigit() and n not in ('0',) else 'OP_' + n


# inline expressions, as in scripts: the value of the expression is pushed; one that cannot be evaluated is an invalid token
INLINE = {
    'sha256(0xab)': push_data(sha256(b'\xab')),
    'reverse(0x010203)': push_data(b'\x03\x02\x01'),
    'hash160(0x00)': push_data(hash160(b'\x00')),
    'int(0x0102)': push_num(0x0201),
    'sha256([OP_1 OP_2])': push_data(sha256(b'\x51\x52')),
    'hash160([0x1234 OP_DUP])': push_data(hash160(b'\x02\x12\x34\x76')),
    'int(0x010203040506070809)': None,
    'int(0xe539d2015a2f0cbde363246e1498fa0c1e05cb74b602043561da1ac0682ab605)': None,
}


def compile_list(toks):
    """the operations a token list denotes, or None if it is not in the grammar: like the arguments of btcc, a bracketed sub-script may be
    spread over several tokens, and a token may go on after a closing bracket (C07's join_args)"""
    toks = [t for t in toks if t != '']
    text = ' '.join(toks)
    depth = 0
    for ch in text:
        depth += (ch == '[') - (ch == ']')
        if depth < 0:
            return None          # a bracket is closed that was never opened
    if depth != 0:
        return None
    try:
        joined = asm.split_body(text)      # the arguments are read like the body of a sub-script: blanks and tabs separate, brackets group
    except asm.AsmError:
        return None
    comp = [compile_token(t) for t in joined]
    return None if any(c is None for c in comp) else comp


def compile_token(tok):
    """exec reads its tokens the way the tokens of a script are read (ref.asm, the grammar C07 judges): decimal number of any
    size -> minimal number push; opcode name -> opcode; hex with or without 0x -> push of those bytes in the minimal form;
    [ ... ] -> push of the compiled body.  Returns the bytes, or None for a token outside the grammar."""
    if tok == '':
        return b''
    if tok in INLINE:
        return INLINE[tok]
    try:
        c = asm.classify(tok)
    except asm.AsmError:
        return None
    return None if c is None else asm.emit(c)


def gen_tokens(rng, sv, state_depth):
    n = rng.choice([1, 1, 2, 3, 4, 6, 8])
    toks = []
    for _ in range(n):
        r = rng.random()
        if r < 0.3:
            toks.append(str(rng.choice([1, 2, 3, 5, 16, 17, 127, 128, 255, 256, 1000, -1, -2, -17, 32767, 2 ** 31 - 1, 4660, 1234])))
        elif r < 0.45:
            ln = rng.choice([2, 2, 3, 4, 5, 8, 20, 33])
            toks.append(bytes(rng.randrange(256) for _ in range(ln)).hex())
        elif r < 0.5:
            toks.append(rng.choice(['00', '80', 'ff', '0000000001', '0100', 'ab', '11', '05', '81', '01', '0a', '10', '0x05', '0x81', '0x', '0x1234', '0x00', '0xabcdef0123',
                                    '1ADD', 'OP_1ADD', 'TRUE', 'FALSE', 'NOP2', str(2 ** 31), str(-2 ** 31), str(2 ** 32), str(-2 ** 31 - 1), str(2 ** 40 + 5), str(2 ** 63 - 1), str(-2 ** 63 + 1),
                                    '[OP_1 OP_ADD]', '[]', '[0x05]']))
        elif r < 0.9:
            o = rng.choice(gen.STACK_OPS + gen.NUM1 + gen.NUM2 + [OP_WITHIN, OP_VERIFY, OP_EQUAL, OP_EQUALVERIFY, OP_IF, OP_NOTIF, OP_ELSE, OP_ENDIF, OP_0, OP_1, OP_1NEGATE, OP_16]
                           + gen.HASHES + gen.NOPS + [OP_RETURN, OP_RESERVED, OP_VER, OP_CAT, OP_2MUL])
            toks.append(tok_of_op(rng, o))
        else:
            o = rng.choice([x for x in gen.ALL_OPS if x not in gen.SIGOPS and x != OP_CODESEPARATOR])
            toks.append(tok_of_op(rng, o))
    if rng.random() < 0.08:
        # bracketed sub-scripts the way a command line delivers them: spread over several tokens, glued to what follows
        toks[rng.randrange(len(toks) + 1):0] = rng.choice([['[OP_1', 'OP_2]'], ['[OP_1][OP_2]'], ['[OP_1]5'], ['[OP_1', '[OP_2', 'OP_3]]', 'OP_SIZE'], ['[', 'OP_DUP', ']'], ['[0x1234', 'OP_ADD][OP_1]'], ['[]'], ['sha256([OP_1', 'OP_2])'], ['hash160([0x1234', 'OP_DUP])', 'OP_SIZE'], ['OP_1\tOP_2'], ['OP_1\t[OP_2\tOP_3]']])
    if sv == TAPSCRIPT:
        toks = [t for t in toks if not (len(compile_token(t) or b'') == 1 and is_op_success(compile_token(t)[0]))] or ['OP_NOP']
    return toks


def gen_case(rng, idx):
    sv = rng.choice([BASE, BASE, WITNESS_V0, TAPSCRIPT])
    fl = rng.choice([STANDARD, STANDARD, 0, STANDARD & ~F["MINIMALDATA"], STANDARD & ~F["MINIMALIF"] & ~F["DISCOURAGE_UPGRADABLE_NOPS"]])
    st = gen.rnd_stack(rng)[:5]
    script = gen.strip_sigops(gen.gen_deep(rng, sv, fl, rng.choice([2, 4, 8, 14, 25]), st, fail_keep=0.0))
    if sv == TAPSCRIPT and any(is_op_success(o) for o, d in (decode_all(script) or [])):
        script = bytes([OP_1, OP_2, OP_ADD, OP_0, OP_IF, OP_5, OP_ENDIF, OP_DUP])
    script = script.replace(bytes([OP_CODESEPARATOR]), bytes([OP_NOP])) if False else script
    nops = len(decode_all(script) or [])
    k = rng.choice([0, 0, 1, nops // 2, max(0, nops - 1), nops, rng.randint(0, max(0, nops))])
    k = min(k, nops)
    return dict(script=script, stack=st, flags=fl, sv=sv, k=k, toks=None)


def gen_sig_case(rng, idx):
    """tapscript sessions whose script AND exec lists contain signature checks that consume the BIP342 validation-weight
    budget: a non-empty signature against a public key of an unknown type (not 32 bytes) passes without any transaction
    and costs 50 units, so the budget - and the error once it is exhausted - is decided by how many checks ran so far,
    whether they came from the script or from exec."""
    fl = rng.choice([STANDARD & ~F["DISCOURAGE_UPGRADABLE_PUBKEYTYPE"]] * 4 + [STANDARD, 0])
    W = rng.choice([0, 49, 50, 51, 99, 100, 101, 149, 150, 200, 1000])

    def unit(as_tokens):
        sig = rng.choice([b'', bytes(rng.randrange(1, 256) for _ in range(rng.choice([1, 64, 64, 65])))])
        pk = rng.choice([bytes(rng.randrange(256) for _ in range(rng.choice([1, 33, 33, 31, 20]))), bytes(rng.randrange(256) for _ in range(32)), b''])
        kind = rng.choice(['CHECKSIG', 'CHECKSIG', 'CHECKSIGVERIFY', 'CHECKSIGADD'])
        if as_tokens:
            t = []
            if kind == 'CHECKSIGADD':
                t = [sig.hex() if sig else 'OP_0', str(rng.choice([1, 2, 7])), pk.hex() if pk else 'OP_0', 'OP_CHECKSIGADD']
            else:
                t = [sig.hex() if sig else 'OP_0', pk.hex() if pk else 'OP_0', 'OP_' + kind]
            return t
        b = push_data(sig)
        if kind == 'CHECKSIGADD':
            b += bytes([OP_3])
        b += push_data(pk) + bytes([OP[kind]])
        if kind != 'CHECKSIGVERIFY':
            b += bytes([OP_DROP])
        return b
    script = b''
    for _ in range(rng.choice([0, 1, 2, 3])):
        script += rng.choice([bytes([OP_NOP]), bytes([OP_1, OP_DROP]), b'']) + unit(False)
    script += bytes([OP_1])
    nops = len(decode_all(script))
    # the prefix must be steppable: stop before the first operation the reference refuses
    ok_steps = 0
    probe = Interp(script, [], fl, TAPSCRIPT, weight=W)
    try:
        while not probe.at_end():
            probe.step()
            ok_steps += 1
    except (ScriptFail, NumErr):
        pass
    nops = ok_steps
    k = rng.choice([0, nops // 2, max(0, nops - 1), nops, rng.randint(0, nops)])
    toks = []
    for _ in range(rng.choice([1, 1, 2, 3])):
        toks += unit(True)
        if rng.random() < 0.3:
            toks.append(rng.choice(['OP_DROP', 'OP_NOP', 'OP_DUP']))
    return dict(script=script, stack=[], flags=fl, sv=TAPSCRIPT, k=k, toks=toks, weight=W)


def gen_repair_case(rng, idx):
    """a step fails for want of operands, exec supplies them, the session continues: the failed step must not have counted
    (scripts at and next to the 201-operation limit make a double count visible)"""
    sv = rng.choice([BASE, WITNESS_V0])
    op, need = rng.choice([(OP_ADD, ['2', '3']), (OP_DROP, ['7']), (OP_DUP, ['5']), (OP_SWAP, ['1', '2']), (OP_EQUALVERIFY, ['9', '9']), (OP_SHA256, ['abcd']), (OP_TOALTSTACK, ['4']), (OP_VERIFY, ['1'])])
    total = rng.choice([201, 201, 200, 199, 150, 30])
    r = rng.randrange(0, min(total - 1, 60))
    script = bytes([OP_NOP]) * r + bytes([op]) + bytes([OP_NOP]) * (total - r - 1) + bytes([OP_1])
    return dict(script=script, stack=[], flags=STANDARD & ~F["CLEANSTACK"], sv=sv, k=r, toks=list(need), failing_step=True)


def judge(c, evs, part):
    script, stack, flags, sv, k, toks = c['script'], c['stack'], c['flags'], c['sv'], c['k'], c['toks']
    wit = dict(script=script.hex(), stack=[x.hex() for x in stack], flags=flags, sv=sv, steps_before=k, exec=toks)
    W = c.get('weight')
    if W is not None:
        wit['weight'] = W
    if c.get('toks0') is not None:
        wit['exec_before'] = c['toks0']
    part.evaluations += 1
    if any(kd == 'CRASH' for kd, e in evs):
        return
    st = [(kd, e) for kd, e in evs if kd in ('U', 'S', 'X')]
    if not st or st[0][0] != 'U' or not st[0][1].ret:
        part.inconc('setup')
        return
    # reference pre-state
    it = Interp(script, stack, flags, sv, weight=W)
    pos = 1
    for i in range(k):
        if pos >= len(st) or st[pos][0] != 'S':
            part.inconc('prefix-shorter-than-planned')
            return
        try:
            it.step()
        except (ScriptFail, NumErr):
            part.inconc('prefix-fails')
            return
        e = st[pos][1]
        pos += 1
        if not e.ret or not lockstep.stacks_equal(it.stack, e.stack):
            part.inconc('prefix-differs(C01)')
            return
    if c.get('failing_step'):
        # the step before the exec FAILS (it executes nothing): exec then supplies what was missing and the session goes on
        import copy
        snap = copy.deepcopy(it)
        try:
            it.step()
            part.inconc('planned-failing-step-succeeds')
            return
        except (ScriptFail, NumErr):
            it = snap
        if pos >= len(st) or st[pos][0] != 'S':
            part.inconc('prefix-shorter-than-planned')
            return
        fe = st[pos][1]
        pos += 1
        if fe.ret:
            part.inconc('planned-failing-step-succeeds(C01)')
            return
        wit['failing_step_before_exec'] = True
        part.count('after_failed_step', 'n')
    pre = st[pos - 1][1]
    if pos >= len(st) or st[pos][0] != 'X':
        part.inconc('no-exec-event')
        return
    pre_stack, pre_alt, pre_vf, pre_nop, pre_weight = list(it.stack), list(it.alt), list(it.vf), it.nop, it.weight
    if c.get('toks0') is not None:
        # an earlier exec (successful, failing or throwing) precedes the judged one: "at any point of a session" includes that point.
        # The judged exec is compared with the reference executing on the state the tool itself reported after the earlier exec.
        x0 = st[pos][1]
        pos += 1
        if pos >= len(st) or st[pos][0] != 'X':
            part.inconc('no-second-exec-event')
            return
        if (x0.pc, x0.seq, x0.done, x0.cs) != (pre.pc, pre.seq, pre.done, pre.cs):
            part.violation('exec-moves-script-position', wit)
            return
        pre = x0
        size, ff = x0.vf
        ff = min(ff, size)
        pre_stack, pre_alt, pre_vf, pre_nop = list(x0.stack), list(x0.alt), [True] * ff + [False] * (size - ff), x0.nop
        part.count('preceded_by_exec', 'failed' if not x0.ret else 'ok')
    x = st[pos][1]
    pos += 1
    # what the tool printed for the judged exec: the output captured between the previous state event and this one
    xtext = ''
    seen = 0
    for kd, e in evs:
        if kd == 'O':
            xtext += bytes.fromhex(e[1]).decode('latin1') if len(e) > 1 and e[1] != '-' else ''
        elif kd in ('U', 'S', 'X'):
            seen += 1
            if seen == pos:
                break
            xtext = ''
    comp = compile_list(toks)
    part.count('exec_len', len(toks))
    if comp is None:
        # invalid token: exec must refuse and change nothing
        if x.exc.startswith('UNCAUGHT:'):  # (the harness catches what would terminate the real process)
            part.violation('uncaught-exception-in-exec:' + (exc_kind(x.exc.replace('UNCAUGHT:', '')) or '?'), wit)
            return
        if x.ret or x.state() != pre.state():
            part.violation('invalid-token-not-refused-cleanly', wit)
        part.count('outcome', 'invalid-token')
        return
    prog = b''.join(comp)
    # execute on the pre-state
    ex = Interp(prog, pre_stack, flags, sv, weight=pre_weight, alt=pre_alt, vf=pre_vf)
    ex.nop = pre_nop
    res = None
    snap = None
    try:
        while not ex.at_end():
            snap = (list(ex.stack), list(ex.alt), list(ex.vf), ex.nop, ex.weight)
            ex.step()
    except ScriptFail as e:
        res = e.code
    except NumErr as e:
        res = 'NUM_' + e.kind
    xexc = x.exc
    if not xexc and 'exception thrown: ' in xtext:
        # Instance::eval reports exceptions on stderr ("Error: exception thrown: ..."), captured before the X event
        xexc = xtext.split('exception thrown: ')[-1].strip()
    ek = exc_kind(xexc.replace('UNCAUGHT:', '')) if xexc else None
    if x.exc.startswith('UNCAUGHT:'):  # (the harness catches what would terminate the real process)
        part.violation('uncaught-exception-in-exec:' + (ek or '?'), wit)
        return
    # position / remaining script untouched, whatever happened
    if (x.pc, x.seq, x.done, x.cs) != (pre.pc, pre.seq, pre.done, pre.cs):
        part.violation('exec-moves-script-position', wit)
        return
    if res is not None:
        part.count('outcome', 'fail:' + res)
        if x.ret:
            wit['ref'] = res
            part.violation('exec-succeeds-where-script-would-fail:' + res, wit)
            return
        if not res.startswith('NUM_') and 'exception thrown' in xtext:
            # "reports the same error": a script error is not reported as somebody else's exception
            wit['ref'] = res
            wit['reported'] = xtext.strip()[-160:]
            part.violation('exec-reports-an-exception-for-a-script-error', wit)
            return
        if res == 'ANY':     # (a real signature check without a transaction: fails, the code is not specified)
            pass
        elif res.startswith('NUM_'):
            if ek != res:
                part.violation('exec-error-differs', wit)
                return
        elif x.err != res:
            wit['ref'] = res
            wit['impl'] = x.err
            part.violation('exec-error-differs', wit)
            return
        part.nontrivial.add(nt_hash(script, k, tuple(toks), flags, sv))
        # "as if they were the next operations of the script": the operations before the failing one have taken effect, the
        # failing one executed nothing - exactly what a failing step of the script leaves behind (state before that operation,
        # the failed operation not counted)
        ex.stack, ex.alt, ex.vf, ex.nop, ex.weight = snap
        if not lockstep.stacks_equal(ex.stack, x.stack) or not lockstep.stacks_equal(ex.alt, x.alt) or ex.vfstate() != x.vf:
            wit['want'] = [s.hex() if isinstance(s, bytes) else str(s) for s in ex.stack]
            wit['got'] = [s.hex() for s in x.stack]
            part.violation('failing-exec-operation-leaves-partial-state', wit)
            return
        if ex.nop != x.nop:
            wit['ops_counted'] = [ex.nop, x.nop]
            part.violation('failing-exec-operation-is-counted', wit)
            return
        part.count('failed_exec', 'state-before-failing-operation')
        continue_session(c, it, ex, st, pos, part, wit, W)
        return
    part.count('outcome', 'ok')
    if not x.ret:
        wit['impl'] = x.err + (':' + x.exc if x.exc else '')
        part.violation('exec-fails-where-script-would-succeed', wit)
        return
    if not lockstep.stacks_equal(ex.stack, x.stack):
        wit['want'] = [s.hex() for s in ex.stack]
        wit['got'] = [s.hex() for s in x.stack]
        part.violation('exec-stack-differs', wit)
        return
    if not lockstep.stacks_equal(ex.alt, x.alt):
        part.violation('exec-altstack-differs', wit)
        return
    if ex.vfstate() != x.vf:
        part.violation('exec-condition-stack-differs', wit)
        return
    part.nontrivial.add(nt_hash(script, k, tuple(toks), flags, sv))
    part.sample(dict(script=script.hex()[:120], steps_before=k, exec=toks, stack_after=[s.hex() for s in x.stack][:8]), limit=2)
    continue_session(c, it, ex, st, pos, part, wit, W)


def continue_session(c, it, ex, st, pos, part, wit, W):
    # the rest of the session continues from the post-exec state
    it.stack, it.alt, it.vf, it.nop, it.weight = list(ex.stack), list(ex.alt), list(ex.vf), ex.nop, ex.weight
    if W is not None:
        part.count('sigop_budget_after_exec', 'exhausted-later' if ex.weight is not None and ex.weight < 50 else 'left')
    rest = [e for kd, e in st[pos:] if kd == 'S']
    i = 0
    while not it.at_end():
        if i >= len(rest):
            part.violation('continuation-stops-early', wit)
            return
        e = rest[i]
        i += 1
        try:
            it.step()
        except ScriptFail as f:
            if e.ret or (e.err != f.code and f.code != 'ANY'):
                wit['ref'] = f.code
                wit['impl'] = e.err
                part.violation('continuation-after-exec-differs:error', wit)
            return
        except NumErr as f:
            if e.ret or exc_kind(e.exc) != 'NUM_' + f.kind:
                part.violation('continuation-after-exec-differs:error', wit)
            return
        if not e.ret or not lockstep.stacks_equal(it.stack, e.stack) or not lockstep.stacks_equal(it.alt, e.alt) or it.vfstate() != e.vf or it.nop != e.nop:
            part.violation('continuation-after-exec-differs:state', wit)
            return


def worker(job):
    bindir, idx, n = job
    rng = sub_rng(PROP, idx)
    part = Partial()
    wd = scratch('c16')
    try:
        cases = []
        for i in range(n):
            if i % 16 == 3:
                c = gen_repair_case(rng, i)
            elif i % 8 == 7:
                c = gen_sig_case(rng, i)
            else:
                c = gen_case(rng, i)
                c['toks'] = gen_tokens(rng, c['sv'], 0)
            if 'weight' not in c and not c.get('failing_step') and rng.random() < 0.3:
                c['toks0'] = rng.choice([['0000000000', 'OP_1ADD'], ['OP_0', 'OP_VERIFY'], ['ffffffff7f', 'OP_NEGATE'], ['0100', 'OP_NOT'], ['OP_1', 'OP_DROP'], ['OP_DEPTH'], ['OP_BOGUS'], gen_tokens(rng, c['sv'], 0)])
            if 'weight' not in c and not c.get('failing_step') and rng.random() < 0.03 and not any('[' in t or ']' in t for t in c['toks']):     # (inside a sub-script a word outside the grammar is text to push: not judged)
                c['toks'].insert(rng.randrange(len(c['toks']) + 1), rng.choice(['OP_BOGUS', 'zz', 'OP_', '12x', '0x123', '-0', '1e3', '[OP_1', 'OP_1]', '[[OP_1]', '] [', 'OP_1] [OP_2'] + [k for k in INLINE if ' ' not in k]))
            c['id'] = 'x%d.%d' % (idx, i)
            cmds = ['N ' + c['id'], 'SV %d' % c['sv'], 'FL %d' % c['flags'], 'SC %s' % hexs(c['script'])]
            if c['stack']:
                cmds.append('ST ' + items(c['stack']))
            if c.get('weight') is not None:
                cmds.append('XD - - %d' % c['weight'])
            cmds.append('SU')
            cmds += ['S'] * (c['k'] + (1 if c.get('failing_step') else 0))
            if c.get('toks0') is not None:
                cmds.append('X ' + ' '.join((t.encode().hex() or '-') for t in c['toks0']))
            cmds.append('X ' + ' '.join((t.encode().hex() or '-') for t in c['toks']))
            cmds.append('CS')
            cases.append((c, cmds))
        events, crashes, hangs = run_harness_cases(bindir, [(c['id'], cm) for c, cm in cases], wd)
        by = {c['id']: c for c, cm in cases}
        for cr in crashes:
            c = by.get(cr.case_id)
            part.violation('crash:' + cr.key, dict(script=c['script'].hex(), stack=[x.hex() for x in c['stack']], flags=c['flags'], sv=c['sv'], steps_before=c['k'], exec=c['toks'], log=cr.log[-1500:]))
        for c, cm in cases:
            judge(c, parse_events(events.get(c['id'], [])), part)
    finally:
        cleanup_scratch(wd)
    return part.dump()


def repl_worker(job):
    """the same relation through the real `exec` command of the btcdeb binary (kerl argument splitting + fn_exec)"""
    bindir, idx, n = job
    from vf import proc
    rng = sub_rng(PROP, 'repl', idx)
    part = Partial()
    wd = scratch('c16r')
    btcdeb = os.path.join(bindir, 'btcdeb')
    try:
        for j in range(n):
            st = gen.rnd_stack(rng)[:3]
            script = gen.strip_sigops(gen.gen_deep(rng, BASE, STANDARD, rng.choice([2, 5, 9]), st, fail_keep=0.0)) or bytes([OP_1])
            if is_p2sh(script):
                continue
            ops = decode_all(script) or []
            nops = len(ops)
            k = rng.choice([0, nops // 2, max(0, nops - 1), nops])
            toks = [t for t in gen_tokens(rng, BASE, 0) if t and all(ch.isalnum() or ch in '_-' for ch in t)] or ['OP_NOP']
            it = Interp(script, st, STANDARD, BASE)
            try:
                for _ in range(k):
                    it.step()
            except (ScriptFail, NumErr):
                continue
            comp = compile_list(toks)
            if comp is None:
                continue
            ex = Interp(b''.join(comp), list(it.stack), STANDARD, BASE, alt=list(it.alt), vf=list(it.vf))
            ex.nop = it.nop
            res = None
            try:
                while not ex.at_end():
                    ex.step()
            except ScriptFail as e:
                res = e.code
            except NumErr as e:
                res = 'NUM_' + e.kind
            args = ['0x' + script.hex()] + ['0x' + x.hex() for x in st]
            r, segs = proc.repl_session(btcdeb, args, ['step'] * k + ['exec ' + ' '.join(toks)], wd, timeout=60)
            part.evaluations += 1
            wit = dict(script=script.hex(), stack=[x.hex() for x in st], steps_before=k, exec=toks, via='btcdeb REPL')
            if r.abnormal:
                part.violation('repl:' + r.crash_key('btcdeb'), dict(wit, run=r.brief()))
                continue
            if len(segs) != k + 2:
                part.inconc('repl-session-short')
                continue
            pre, post = segs[-2]['dump'], segs[-1]['dump']
            out = segs[-1]['out'] + r.stderr.decode('latin1')
            if (post['pc'], post['seq'], post['done'], post['script']) != (pre['pc'], pre['seq'], pre['done'], pre['script']):
                part.violation('repl:exec-moves-script-position', wit)
                continue
            if res is not None:
                if 'rror' not in out:
                    wit['ref'] = res
                    part.violation('repl:failing-exec-reports-no-error', wit)
                    continue
                part.count('repl', 'failing-exec-reported')
            else:
                got = [bytes.fromhex(x) for x in post['stack']]
                galt = [bytes.fromhex(x) for x in post['alt']]
                if not lockstep.stacks_equal(ex.stack, got) or not lockstep.stacks_equal(ex.alt, galt) or ex.vfstate() != (post['vfsize'], post['vfff']):
                    wit['want'] = [x.hex() if isinstance(x, bytes) else str(x) for x in ex.stack]
                    wit['got'] = post['stack']
                    part.violation('repl:exec-state-differs', wit)
                    continue
                part.count('repl', 'state-equal')
            part.nontrivial.add(nt_hash('repl', script, k, tuple(toks)))
    finally:
        cleanup_scratch(wd)
    return part.dump()


def main():
    ap = argparse.ArgumentParser()
    ap.add_argument('--tier', default=os.environ.get('VERIF_TIER', 'quick'))
    ap.add_argument('--replay')
    a = ap.parse_args()
    bindir = vbuild.build('asan')
    rep = Reporter(PROP, a.tier)
    if a.replay:
        d = json.load(open(a.replay))
        for w in d['witnesses']:
            if not w or 'exec' not in w:
                continue
            c = dict(id='r', script=bytes.fromhex(w['script']), stack=[bytes.fromhex(x) for x in w['stack']], flags=w['flags'], sv=w['sv'], k=w['steps_before'], toks=w['exec'], weight=w.get('weight'), toks0=w.get('exec_before'), failing_step=w.get('failing_step_before_exec'))
            cmds = ['N r', 'SV %d' % c['sv'], 'FL %d' % c['flags'], 'SC %s' % hexs(c['script'])] + (['ST ' + items(c['stack'])] if c['stack'] else []) + (['XD - - %d' % c['weight']] if c['weight'] is not None else []) + ['SU'] + ['S'] * (c['k'] + (1 if c.get('failing_step') else 0)) + \
                   (['X ' + ' '.join((t.encode().hex() or '-') for t in c['toks0'])] if c.get('toks0') is not None else []) + ['X ' + ' '.join((t.encode().hex() or '-') for t in c['toks']), 'CS']
            wd = scratch('c16r')
            events, crashes, hangs = run_harness_cases(bindir, [('r', cmds)], wd)
            cleanup_scratch(wd)
            print('\n'.join(events.get('r', [])))
            part = Partial()
            judge(c, parse_events(events.get('r', [])), part)
            print('verdict:', [k for k, _ in part.violations] or 'agrees', [c.key for c in crashes])
        return 0
    n = 1500 if a.tier == 'quick' else 30000
    for r in parallel(worker, [(bindir, i, n) for i in range(32)]):
        rep.merge(r)
    for r in parallel(repl_worker, [(bindir, i, 12 if a.tier == 'quick' else 600) for i in range(16)]):
        rep.merge(r)
    return rep.finish(
        rule='session = model-steered script stepped to a random prefix (start, middle, last op, end); exec token lists of 1..8 tokens in exec\'s own grammar (opcode names with/without OP_, decimals, hex pushes, '
             'invalid tokens at 3%; 30% of the sessions issue another exec first - failing, throwing or succeeding - and the judged exec starts from the state reported after it); judged against the reference executing the compiled operations on the same pre-state, then the remaining script is stepped and compared. '
             'every 8th case is a tapscript session with an explicit BIP342 validation-weight budget (0..1000) whose script and exec lists contain CHECKSIG/CHECKSIGVERIFY/CHECKSIGADD on non-empty signatures and unknown-type keys, so that exec\'d checks must consume the same budget as scripted ones. '
             'a sample runs through the real `exec` command of the btcdeb binary (scripted REPL: step k times, exec, state dump). non-trivial = distinct (script, prefix, token list, flags, sigversion) whose exec result (state or required error) was compared',
        assumptions=['token -> operation mapping is the grammar scripts are written in (ref.asm, judged by C07): decimal of any size = minimal number push, opcode name with or without OP_, hex with or without 0x = push of those bytes in the minimal form, [..] = push of the compiled body',
                     'a failing exec leaves the state the operations before the failing one produced, the failing one not counted - what a failing step of the script leaves',
                     'signature opcodes inside exec are judged in tapscript sessions without a transaction (empty signatures, unknown public-key types, budget exhaustion); real signature verification and OP_CODESEPARATOR inside exec are exercised by C15 (memory safety) only'],
        min_events=1000)


if __name__ == '__main__':
    main_wrapper(main)
