"""C17 — re-enabled opcodes compute the functions their names denote.

Events : Instance::step() traces of one-operation scripts with allow_disabled_opcodes on/off, operands on
         the initial stack, executed and inside an unexecuted branch.
Oracle : ref.script.Interp.exec_extended (string / bitwise / signed-integer functions), lenient where the
         statement is silent (rounding of a negative right shift; operands longer than 4 bytes may be
         refused as numeric overflow).  Invalid operands must give a script-level failure, never a crash.
"""
import sys, os, argparse, json
sys.path.insert(0, os.path.dirname(os.path.dirname(os.path.abspath(__file__))))
from vf.common import *
from vf import build as vbuild
from ref.script import *
from checks import lockstep
from checks.lockstep import case_cmds, parse_events, exc_kind

PROP = 'C17'
UN = [OP_INVERT, OP_2MUL, OP_2DIV]
BIN = [OP_CAT, OP_LEFT, OP_RIGHT, OP_AND, OP_OR, OP_XOR, OP_MUL, OP_DIV, OP_MOD, OP_LSHIFT, OP_RSHIFT]
TER = [OP_SUBSTR]
NUMERIC = {OP_2MUL, OP_2DIV, OP_MUL, OP_DIV, OP_MOD, OP_LSHIFT, OP_RSHIFT}
NUMS = [0, 1, -1, 2, -2, 3, 7, 8, 16, 31, 32, 33, 63, 64, 65, 127, 128, -127, -128, 255, 256, -255, -256, 32767, 32768, -32768,
        2 ** 31 - 1, -(2 ** 31 - 1), 2 ** 30, 2 ** 39 - 1, -(2 ** 39 - 1)]
BLOBS = [b'', b'\x80', b'\x00', b'\x00\x80', b'\xff', b'\xf0\x0f', b'abc', b'abcd', b'\x01\x02\x03\x04\x05', b'\xaa' * 8, b'\x55' * 8, b'hello world!', b'\x00\x00\x00\x00']
POOL = [num_encode(n) for n in NUMS] + BLOBS
OFFS = [num_encode(n) for n in [0, 1, 2, 3, 4, 5, 6, 8, 12, 13, -1, 520, 70000]] + [b'\x80', b'\x00']


def judge(case, evs, part):
    op, stack, flags, allow, wrapped = case['op'], case['stack'], case['flags'], case['allow'], case['wrapped']
    name = OPNAME[op]
    wit = dict(op=name, stack=[x.hex() for x in stack], flags=flags, allow_disabled=allow, unexecuted=wrapped)
    part.evaluations += 1
    if any(k == 'CRASH' for k, e in evs):
        return
    steps = [e for k, e in evs if k == 'S']
    u = [e for k, e in evs if k == 'U']
    sc = [e for k, e in evs if k == 'SC']
    if not sc or sc[0][1] != '1' or not u or not u[0].ret:
        part.violation('%s:script-refused' % name, wit)
        return
    if not steps:
        part.inconc('no-steps')
        return
    mode = ('on' if allow else 'off') + ('/unexecuted' if wrapped else '/executed')
    part.count('mode', mode)
    sv = case.get('sv', BASE)
    if sv != BASE:
        wit['sv'] = sv
        mode += '/' + {WITNESS_V0: 'v0', TAPSCRIPT: 'tapscript'}[sv]
    if not allow and sv == TAPSCRIPT:
        # in a tapscript these byte values are OP_SUCCESSx: without the option the function must not be computed (nor the opcode be
        # skipped like an ordinary one) - failing as a disabled opcode and ending the whole script as BIP342 prescribes are both accepted
        idx = 2 if wrapped else 0
        ran = len(steps) > idx and steps[idx].ret and not steps[idx].done
        if ran:
            part.violation('%s:not-disabled-without-option:tapscript%s' % (name, ':unexecuted' if wrapped else ''), wit)
        else:
            part.nontrivial.add(nt_hash(op, tuple(stack), flags, mode))
        part.count('outcome', name + ':disabled')
        return
    if not allow:
        # must fail as a disabled opcode at the op itself
        idx = 2 if wrapped else 0
        if len(steps) <= idx or steps[idx].ret or steps[idx].err != 'DISABLED_OPCODE' or steps[idx].exc:
            part.violation('%s:not-disabled-without-option%s' % (name, ':unexecuted' if wrapped else ''), wit)
        else:
            part.nontrivial.add(nt_hash(op, tuple(stack), flags, mode))
        part.count('outcome', name + ':disabled')
        return
    if wrapped:
        # 0 IF op ENDIF with the option on: skipped, stack unchanged, success
        last = steps[-1]
        if not (last.ret and last.done and last.stack == list(stack)):
            part.violation('%s:unexecuted-branch-not-skipped' % name, wit)
        part.count('outcome', name + ':skipped')
        return
    it = Interp(bytes([op]), list(stack), flags, BASE, allow_disabled=True)
    overlong = op in NUMERIC and any(len(x) > 4 for x in stack[-(2 if op not in UN else 1):])
    try:
        it.step()
        ref = ('ok', it.stack)
    except ScriptFail as e:
        ref = ('fail', e.code)
    except NumErr as e:
        ref = ('fail', 'NUM_' + e.kind)
    e = steps[0]
    ek = exc_kind(e.exc)
    if ref[0] == 'ok':
        res = ref[1][-1]
        # results that do not fit the implementation's 64-bit numbers must be refused, not wrapped
        unrep = isinstance(res, tuple) and any(v is None or abs(v) >= 2 ** 63 for v in res[1])
        if unrep:
            part.count('outcome', name + ':unrepresentable')
            if e.ret:
                part.violation('%s:unrepresentable-result-not-refused' % name, wit)
            elif ek and not ek.startswith('NUM_'):
                part.violation('%s:error-is-exception:%s' % (name, ek), wit)
            else:
                part.nontrivial.add(nt_hash(op, tuple(stack), flags, mode))
            return
        if not e.ret:
            if overlong and ek == 'NUM_overflow':
                part.count('outcome', name + ':overlong-operand-refused')
                return
            wit['impl'] = e.err + (':' + e.exc if e.exc else '')
            part.violation('%s:fails-on-valid-operands' % name, wit)
            return
        if not lockstep.stacks_equal(ref[1], e.stack):
            wit['want'] = [x.hex() if isinstance(x, bytes) else [None if v is None else num_encode(v).hex() for v in x[1]] for x in ref[1]]
            wit['got'] = [x.hex() for x in e.stack]
            part.violation('%s:wrong-result' % name, wit)
            return
        part.count('outcome', name + ':computed')
        part.nontrivial.add(nt_hash(op, tuple(stack), flags, mode))
        part.sample(dict(op=name, operands=[x.hex() for x in stack], result=e.stack[-1].hex() if e.stack else None), limit=2)
    else:
        code = ref[1]
        part.count('outcome', name + ':error')
        if e.ret:
            wit['ref'] = code
            part.violation('%s:invalid-operands-accepted' % name, wit)
            return
        if code.startswith('NUM_') or code == 'ANY':
            # several operands may be invalid at once and the order of the checks is not prescribed:
            # any script-level failure (error code or number-decoding failure) is accepted
            if ek and not ek.startswith('NUM_'):
                part.violation('%s:error-is-exception:%s' % (name, ek), wit)
        elif e.err != code or ek:
            wit['ref'] = code
            wit['impl'] = ek or e.err
            part.violation('%s:error-differs' % name, wit)
        part.nontrivial.add(nt_hash(op, tuple(stack), flags, mode))


def gen_cases(idx, nchunks, tier):
    cases = []
    k = 0

    def add(op, st):
        nonlocal k
        for flags in (0, STANDARD):
            for allow, wrapped in ((True, False), (False, False), (False, True), (True, True)):
                if (not allow or wrapped) and (zlib_crc(op, st) % 16):
                    continue   # the disabled/unexecuted variants do not depend on operands: sample them
                if k % nchunks == idx:
                    cases.append(dict(op=op, stack=list(st), flags=flags, allow=allow, wrapped=wrapped))
                k += 1
    for op in UN:
        for a in POOL:
            add(op, [a])
        add(op, [])
    for op in BIN:
        second = OFFS if op in (OP_LEFT, OP_RIGHT) else POOL
        for a in POOL:
            for b in second:
                add(op, [a, b])
        add(op, [b'\x01'])
    # the result of OP_CAT is an element like any other: 520 bytes at most
    for la, lb in ((260, 260), (260, 261), (261, 260), (520, 0), (0, 520), (520, 1), (1, 520), (519, 1), (519, 2), (300, 300), (520, 520), (0, 0)):
        add(OP_CAT, [b'a' * la, b'b' * lb])
    for op in TER:
        for a in BLOBS + [num_encode(300)]:
            for b in OFFS:
                for c in OFFS:
                    add(op, [a, b, c])
        add(op, [b'ab', b'\x01'])
    # the gate does not depend on the script version: segwit v0 and tapscript sessions, executed and unexecuted
    for op in UN + BIN + TER:
        n_operands = 1 if op in UN else 2 if op in BIN else 3
        st = [b'\x01', b'\x02', b'\x01'][:n_operands] if op not in (OP_AND, OP_OR, OP_XOR) else [b'\x05', b'\x03']
        if op == OP_SUBSTR:
            st = [b'abc', b'\x01', b'\x01']
        for svx in (WITNESS_V0, TAPSCRIPT):
            for flags in (0, STANDARD & ~F["DISCOURAGE_OP_SUCCESS"], STANDARD):
                for allow, wrapped in ((False, False), (False, True)) + (((True, False),) if svx == WITNESS_V0 else ()):
                    if k % nchunks == idx:
                        cases.append(dict(op=op, stack=list(st), flags=flags, allow=allow, wrapped=wrapped, sv=svx))
                    k += 1
    if tier == 'thorough':
        rng = sub_rng(PROP, 'rand', idx)
        for i in range(80000):
            op = rng.choice(UN + BIN + TER)
            n = 1 if op in UN else 2 if op in BIN else 3
            st = []
            for j in range(n):
                r = rng.random()
                if r < 0.5:
                    st.append(num_encode(rng.choice(NUMS) + rng.choice([0, 0, 1, -1])))
                elif r < 0.7:
                    st.append(num_encode(rng.randrange(-2 ** 31 + 1, 2 ** 31)))
                else:
                    st.append(bytes(rng.randrange(256) for _ in range(rng.choice([0, 1, 2, 3, 4, 4, 5, 8, 16]))))
            if op in (OP_AND, OP_OR, OP_XOR) and rng.random() < 0.8:
                st[1] = bytes(rng.randrange(256) for _ in range(len(st[0])))
            cases.append(dict(op=op, stack=st, flags=rng.choice([0, STANDARD]), allow=True, wrapped=False))
    for i, c in enumerate(cases):
        c['id'] = 'c%d.%d' % (idx, i)
    return cases


def zlib_crc(op, st):
    import zlib
    return zlib.crc32(bytes([op]) + b'|'.join(st))


def script_of(c):
    if c['wrapped']:
        return bytes([OP_0, OP_IF, c['op'], OP_ENDIF])
    return bytes([c['op']])


def worker(job):
    bindir, idx, nchunks, tier = job
    part = Partial()
    cases = gen_cases(idx, nchunks, tier)
    wd = scratch('c17')
    try:
        hc = [(c['id'], case_cmds(c['id'], script_of(c), c['stack'], c['flags'], c.get('sv', BASE), allow=c['allow'])) for c in cases]
        events, crashes, hangs = run_harness_cases(bindir, hc, wd)
        by = {c['id']: c for c in cases}
        for cr in crashes:
            c = by.get(cr.case_id)
            name = OPNAME[c['op']] if c else '?'
            part.violation('%s:crash:%s' % (name, cr.key), dict(op=name, stack=[x.hex() for x in c['stack']] if c else None, flags=c['flags'] if c else None, log=cr.log[-1500:]))
        for h in hangs:
            part.violation('hang', dict(id=h))
        for c in cases:
            judge(c, parse_events(events.get(c['id'], [])), part)
    finally:
        cleanup_scratch(wd)
    return part.dump()


def binary_worker(job):
    """the real option: `btcdeb -z <script> <stack>` and the same without -z, non-interactive (stdin a terminal, stdout a pipe)"""
    bindir, idx, n = job
    from vf import proc
    rng = sub_rng(PROP, 'bin', idx)
    part = Partial()
    wd = scratch('c17b')
    btcdeb = os.path.join(bindir, 'btcdeb')
    try:
        for i in range(n):
            op = rng.choice(UN + BIN + TER)
            k = 1 if op in UN else 2 if op in BIN else 3
            if op in (OP_LEFT, OP_RIGHT):
                st = [rng.choice(POOL), rng.choice(OFFS)]
            elif op == OP_SUBSTR:
                st = [rng.choice(BLOBS), rng.choice(OFFS), rng.choice(OFFS)]
            else:
                st = [rng.choice(POOL) for _ in range(k)]
            allow = rng.random() < 0.7
            wrapped = rng.random() < 0.2
            script = bytes([OP_0, OP_IF, op, OP_ENDIF]) if wrapped else bytes([op])
            opt = [rng.choice(['-z', '--allow-disabled-opcodes'])] if allow else []
            name = OPNAME[op]
            mode = rng.choice(['ptyin', 'pipe', 'ptyout'])     # script on argv / on stdin; stdout a pipe or a terminal
            if mode in ('pipe', 'ptyout'):
                r = proc.run([btcdeb] + opt + ['0x' + x.hex() for x in st], wd, stdin=('0x' + script.hex() + '\n').encode(), mode=mode, timeout=30)
            else:
                r = proc.run([btcdeb] + opt + ['0x' + script.hex()] + ['0x' + x.hex() for x in st], wd, mode=mode, timeout=30)
            if mode == 'ptyout':
                r.stdout = proc.clean_tty(r.stdout)
            part.evaluations += 1
            part.count('binary', ('-z' if allow else 'no option') + ('/unexecuted' if wrapped else '') + '/' + mode)
            wit = dict(op=name, stack=[x.hex() for x in st], option=opt, unexecuted=wrapped, via='btcdeb binary', mode=mode, run=r.brief())
            if r.abnormal:
                part.violation('%s:binary:%s' % (name, r.crash_key('btcdeb')), wit)
                continue
            err = r.stderr.decode('latin1')
            lines = [l for l in r.stdout.decode('latin1').split('\n') if l != '' or False]
            if not allow:
                if r.rc != 1 or 'disabled' not in err.lower():
                    part.violation('%s:binary:not-disabled-without-option' % name, wit)
                else:
                    part.nontrivial.add(nt_hash('bin', op, tuple(st), allow, wrapped))
                continue
            if wrapped:
                # skipped: the initial stack is the result
                got = [bytes.fromhex(l) for l in r.stdout.decode('latin1').split('\n')[:-1]] if r.rc == 0 else None
                if got != list(st) and not (r.rc == 1 and not (st and cast_bool(st[-1])) and False):
                    # (a false/empty final stack is still printed with status 0 by the tool; only the stack is compared)
                    part.violation('%s:binary:unexecuted-branch-not-skipped' % name, wit)
                else:
                    part.nontrivial.add(nt_hash('bin', op, tuple(st), allow, wrapped))
                continue
            it = Interp(bytes([op]), list(st), STANDARD, BASE, allow_disabled=True)
            try:
                it.step()
                ref = ('ok', it.stack)
            except (ScriptFail, NumErr):
                ref = ('fail',)
            overlong = op in NUMERIC and any(len(x) > 4 for x in st[-(2 if op not in UN else 1):])
            if ref[0] == 'fail':
                if r.rc != 1 or 'rror' not in err:
                    part.violation('%s:binary:invalid-operands-accepted' % name, wit)
                else:
                    part.nontrivial.add(nt_hash('bin', op, tuple(st), allow, wrapped))
                continue
            res = ref[1][-1]
            if isinstance(res, tuple) and any(v is None or abs(v) >= 2 ** 63 for v in res[1]):
                if r.rc == 0:
                    part.violation('%s:binary:unrepresentable-result-not-refused' % name, wit)
                continue
            if r.rc != 0:
                if overlong:
                    continue
                part.violation('%s:binary:fails-on-valid-operands' % name, wit)
                continue
            got = [bytes.fromhex(l) for l in r.stdout.decode('latin1').split('\n')[:-1]]
            if not lockstep.stacks_equal(ref[1], got):
                wit['got'] = [x.hex() for x in got]
                part.violation('%s:binary:wrong-result' % name, wit)
                continue
            part.nontrivial.add(nt_hash('bin', op, tuple(st), allow, wrapped))
    finally:
        cleanup_scratch(wd)
    return part.dump()


def repl_worker(job):
    """the same operations in an interactive session (scripted REPL, logging active): `btcdeb -z <script> <operands>`, step, state dump"""
    bindir, idx, n = job
    from vf import proc
    rng = sub_rng(PROP, 'repl', idx)
    part = Partial()
    wd = scratch('c17r')
    btcdeb = os.path.join(bindir, 'btcdeb')
    try:
        for i in range(n):
            op = rng.choice(UN + BIN + TER)
            k = 1 if op in UN else 2 if op in BIN else 3
            if op in (OP_LEFT, OP_RIGHT):
                st = [rng.choice(POOL), rng.choice(OFFS)]
            elif op == OP_SUBSTR:
                st = [rng.choice(BLOBS), rng.choice(OFFS), rng.choice(OFFS)]
            elif op in (OP_DIV, OP_MOD) and rng.random() < 0.5:
                st = [rng.choice(POOL), rng.choice([b'', b'', b'\x80', b'\x00'])]      # division by zero, also by a non-canonical zero
            else:
                st = [rng.choice(POOL) for _ in range(k)]
            flagarg = [] if rng.random() < 0.6 else ['--modify-flags=-MINIMALDATA']
            flags = STANDARD if not flagarg else STANDARD & ~F["MINIMALDATA"]
            name = OPNAME[op]
            opts = ['-z'] + flagarg + (['-v'] if rng.random() < 0.3 else [])
            r, segs = proc.repl_session(btcdeb, opts + ['0x' + bytes([op]).hex()] + ['0x' + x.hex() for x in st], ['step', 'stack'], wd, timeout=60)
            part.evaluations += 1
            part.count('repl', '-z' + (' -MINIMALDATA' if flagarg else ''))
            wit = dict(op=name, stack=[x.hex() for x in st], options=opts, via='btcdeb REPL')
            if r.abnormal:
                part.violation('%s:repl:%s' % (name, r.crash_key('btcdeb')), dict(wit, run=r.brief()))
                continue
            if len(segs) < 2:
                part.inconc('repl-session-short')
                continue
            it = Interp(bytes([op]), list(st), flags, BASE, allow_disabled=True)
            try:
                it.step()
                ref = ('ok', it.stack)
            except (ScriptFail, NumErr):
                ref = ('fail',)
            d = segs[1]['dump']
            got = [bytes.fromhex(x) for x in d['stack']]
            overlong = op in NUMERIC and any(len(x) > 4 for x in st[-(2 if op not in UN else 1):])
            if ref[0] == 'fail':
                if d['seq'] != 0 or got != list(st):
                    part.violation('%s:repl:invalid-operands-accepted' % name, wit)
                else:
                    part.nontrivial.add(nt_hash('repl', op, tuple(st), tuple(opts)))
                continue
            res = ref[1][-1]
            if isinstance(res, tuple) and any(v is None or abs(v) >= 2 ** 63 for v in res[1]):
                continue
            if d['seq'] == 0:
                if not overlong:
                    part.violation('%s:repl:fails-on-valid-operands' % name, wit)
                continue
            if not lockstep.stacks_equal(ref[1], got):
                wit['got'] = d['stack']
                part.violation('%s:repl:wrong-result' % name, wit)
                continue
            part.nontrivial.add(nt_hash('repl', op, tuple(st), tuple(opts)))
    finally:
        cleanup_scratch(wd)
    return part.dump()


def main():
    ap = argparse.ArgumentParser()
    ap.add_argument('--tier', default=os.environ.get('VERIF_TIER', 'quick'))
    ap.add_argument('--replay')
    a = ap.parse_args()
    bindir = vbuild.build('asan')
    rep = Reporter(PROP, a.tier)
    if a.replay:
        d = json.load(open(a.replay))
        for w in d['witnesses']:
            if not w or 'op' not in w:
                continue
            op = OP[w['op'][3:]]
            c = dict(id='r', op=op, stack=[bytes.fromhex(x) for x in w['stack']], flags=w['flags'], allow=w.get('allow_disabled', True), wrapped=w.get('unexecuted', False))
            wd = scratch('c17r')
            events, crashes, hangs = run_harness_cases(bindir, [('r', case_cmds('r', script_of(c), c['stack'], c['flags'], BASE, allow=c['allow']))], wd)
            cleanup_scratch(wd)
            print('\n'.join(events.get('r', [])))
            part = Partial()
            judge(c, parse_events(events.get('r', [])), part)
            print('verdict:', [k for k, _ in part.violations] or 'agrees', [c.key for c in crashes])
        return 0
    n = 32
    for r in parallel(worker, [(bindir, i, n, a.tier) for i in range(n)]):
        rep.merge(r)
    for r in parallel(binary_worker, [(bindir, i, 40 if a.tier == 'quick' else 2000) for i in range(16)]):
        rep.merge(r)
    for r in parallel(repl_worker, [(bindir, i, 25 if a.tier == 'quick' else 600) for i in range(16)]):
        rep.merge(r)
    return rep.finish(
        rule='exhaustive over a boundary pool of %d values (numbers 0,+-1,+-127/128/255/256,2^15,2^31-1,2^39-1, negative zero, blobs of length 0..12, unequal lengths) for all arities of the 15 opcodes, '
             'x {no flags, standard flags}; disabled / unexecuted variants on a 1/16 operand sample (they do not depend on operands); thorough adds 2.5M random operand tuples; a sample runs through the real binary (`btcdeb -z <script> <operands>` and the same without the option, non-interactive) and through interactive sessions (scripted REPL with logging active: step, state dump). '
             'non-trivial = distinct (opcode, operands, flags, mode) judged against the reference function (computed result or required failure)' % len(POOL),
        assumptions=['OP_2DIV is judged as `x 2 OP_DIV` (quotient truncated toward zero); rounding of negative values in OP_RSHIFT (a shift, not a division): truncation and floor are both accepted',
                     'numeric operands longer than 4 bytes may be refused as numeric overflow',
                     'results that do not fit 64-bit script numbers must be refused'],
        exhaustive=False, min_events=10000)


if __name__ == '__main__':
    main_wrapper(main)
