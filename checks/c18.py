"""C18 — script-number encoding is a bijection on minimal encodings.

Events : results of CScriptNum(v,false/true), CScriptNum::serialize, getvch, getint inside the native harness
         (tight loops; 4.3e9 cases cannot cross a pipe), and Value()/tf int/tf hex on a sample.
Oracle : the arithmetic definition (sum b_i*256^i, sign = bit 7 of the last byte; minimal = shortest such
         string) compiled into the harness from harness/vharness.cpp (shares no code with script.h), and
         ref.script.num_encode/num_decode for the Value-level sample.
"""
import sys, os, argparse, subprocess
sys.path.insert(0, os.path.dirname(os.path.dirname(os.path.abspath(__file__))))
from vf.common import *
from vf import build as vbuild
from ref.script import num_encode, num_decode, NumErr

PROP = 'C18'
TOPS = [0x00, 0x01, 0x02, 0x10, 0x3f, 0x40, 0x7e, 0x7f, 0x80, 0x81, 0x82, 0x90, 0xc0, 0xfe, 0xff, 0x55]


def sn_job(job):
    bindir, kind, lo, hi = job
    wd = scratch('c18')
    try:
        events, crashes, hangs = run_harness_cases(bindir, [('sn', ['N sn', 'SN %s %d %d' % (kind, lo, hi)])], wd, timeout_per_batch=3000)
        return (kind, lo, hi, events.get('sn', []), [(c.key, c.log[-1500:]) for c in crashes], hangs)
    finally:
        cleanup_scratch(wd)


def value_job(job):
    bindir, idx, n = job
    rng = sub_rng(PROP, 'value', idx)
    wd = scratch('c18v')
    part = Partial()
    try:
        ints = []
        for i in range(n):
            r = rng.random()
            if r < 0.3:
                v = rng.choice([0, 1, -1, 16, 17, -16, 127, 128, -127, -128, 255, 256, -255, -256, 32767, 32768, -32768, 2**31 - 1, -(2**31 - 1), 2**31, -(2**31),
                                2**39 - 1, 2**63 - 1, -(2**63 - 1), -(2**63)]) + rng.choice([0, 0, 1, -1])
                v = max(-(2**63), min(2**63 - 1, v))
            elif r < 0.7:
                v = rng.randrange(-(2**31), 2**31)
            else:
                sh = rng.randrange(1, 63)
                v = rng.randrange(-(2**sh), 2**sh)
            ints.append(v)
        blobs = []
        for i in range(n):
            ln = rng.choice([1, 1, 2, 2, 3, 4, 4])
            b = bytearray(rng.randrange(256) for _ in range(ln))
            if rng.random() < 0.4:
                b[-1] = rng.choice([0x00, 0x80, 0x7f, 0xff, 0x01, 0x81])
            blobs.append(bytes(b))
        cmds = ['N v']
        for v in ints:
            cmds.append('VS %s' % str(v).encode().hex())
            cmds.append('TF %s' % ('hex %d' % v).encode().hex())
        for b in blobs:
            cmds.append('VS %s' % ('0x' + b.hex()).encode().hex())
            cmds.append('TF %s' % ('int 0x' + b.hex()).encode().hex())
        events, crashes, hangs = run_harness_cases(bindir, [('v', cmds)], wd)
        for c in crashes:
            part.violation('crash:' + c.key, dict(log=c.log[-1200:]))
        ev = [l.split(' ') for l in events.get('v', []) if l.startswith(('VS ', 'TF '))]
        k = 0
        for v in ints:
            if k + 1 >= len(ev):
                part.inconc('missing-events')
                break
            vs, tf = ev[k], ev[k + 1]
            k += 2
            part.evaluations += 1
            enc = num_encode(v)
            # VS type iv data hexstr exc
            if vs[1] != '1' or int(vs[2]) != v:
                part.violation('value:decimal-literal-not-int', dict(value=v, event=vs))
                continue
            if (vs[4] if vs[4] != '-' else '') != enc.hex() or (vs[3] if vs[3] != '-' else '') != enc.hex():
                part.violation('value:int-to-hex-differs', dict(value=v, want=enc.hex(), event=vs))
            out = bytes.fromhex(tf[2]).decode('latin1').strip() if tf[2] != '-' else ''
            if out != enc.hex():
                part.violation('tf-hex-differs', dict(value=v, want=enc.hex(), got=out))
            part.nontrivial.add(nt_hash('i', v))
        for b in blobs:
            if k + 1 >= len(ev):
                part.inconc('missing-events')
                break
            vs, tf = ev[k], ev[k + 1]
            k += 2
            part.evaluations += 1
            want = num_decode(b, False, 4)
            if vs[1] != '2' or int(vs[2]) != want:
                part.violation('value:hex-to-int-differs', dict(hex=b.hex(), want=want, event=vs))
            out = bytes.fromhex(tf[2]).decode('latin1').strip() if tf[2] != '-' else ''
            if out != str(want):
                part.violation('tf-int-differs', dict(hex=b.hex(), want=want, got=out))
            part.nontrivial.add(nt_hash('b', b))
        part.sample(dict(int=ints[0], encoding=num_encode(ints[0]).hex(), hex=blobs[0].hex(), decodes_to=num_decode(blobs[0], False, 4)))
    finally:
        cleanup_scratch(wd)
    return part.dump()


def main():
    ap = argparse.ArgumentParser()
    ap.add_argument('--tier', default=os.environ.get('VERIF_TIER', 'quick'))
    ap.add_argument('--replay')
    a = ap.parse_args()
    thorough = a.tier == 'thorough'
    bindir = vbuild.build('plain' if thorough else 'asan')
    rep = Reporter(PROP, a.tier)
    jobs = []
    # all strings of length 0..3
    jobs.append((bindir, 'str', (0 << 40), (0 << 40) + 1))
    jobs.append((bindir, 'str', (1 << 40), (1 << 40) + 256))
    jobs.append((bindir, 'str', (2 << 40), (2 << 40) + 65536))
    for i in range(16):
        jobs.append((bindir, 'str', (3 << 40) + i * (1 << 20), (3 << 40) + (i + 1) * (1 << 20)))
    if thorough:
        n = 256
        for i in range(n):
            jobs.append((bindir, 'str', (4 << 40) + i * (1 << 24), (4 << 40) + (i + 1) * (1 << 24)))
        for i in range(n):
            jobs.append((bindir, 'int', i * (1 << 24), (i + 1) * (1 << 24) + (1 if i == n - 1 else 0)))
        for i in range(16):
            jobs.append((bindir, 'str5', seed() * 1000 + i, 4_000_000))
            jobs.append((bindir, 'int64', seed() * 1000 + i, 4_000_000))
    else:
        # stratified 4-byte strings: 256 (b3,b2) classes x all 65536 (b1,b0)
        for b3 in TOPS:
            for b2 in TOPS:
                top = (b3 << 8 | b2) << 16
                jobs.append((bindir, 'str', (4 << 40) + top, (4 << 40) + top + 65536))
        # integers: the whole 3-byte range around zero plus windows at every encoding-size boundary
        c = 1 << 31
        for lo, hi in [(c - (1 << 23) - 70000, c + (1 << 23) + 70000), (0, 1 << 20), (2 * c - (1 << 20), 2 * c + 1),
                       (c - (1 << 31) + (1 << 30), c - (1 << 31) + (1 << 30) + (1 << 19)), (c + (1 << 30), c + (1 << 30) + (1 << 19))]:
            step = 1 << 20
            x = lo
            while x < hi:
                jobs.append((bindir, 'int', x, min(hi, x + step)))
                x += step
        for i in range(8):
            jobs.append((bindir, 'str5', seed() * 1000 + i, 200_000))
            jobs.append((bindir, 'int64', seed() * 1000 + i, 200_000))
    tot = collections.Counter()
    for kind, lo, hi, lines, crashes, hangs in parallel(sn_job, jobs):
        for key, log in crashes:
            rep.violation('crash:' + key, dict(kind=kind, lo=lo, hi=hi, log=log))
        for h in hangs:
            rep.inconc('sweep-timeout')
        sn = [l.split(' ') for l in lines if l.startswith('SN ')]
        if not sn:
            if not crashes:
                rep.inconc('no-SN-event')
            continue
        t = sn[0]
        n, bad, minimal, thrown = int(t[2]), int(t[3]), int(t[4]), int(t[5])
        k = kind if kind != 'str' else 'str%d' % ((lo >> 40) & 0xf)
        tot[k] += n
        tot[k + ':minimal'] += minimal
        tot[k + ':strict_rejections'] += thrown
        rep.evaluations += n
        if bad:
            for w in t[6:]:
                what = w.split(':')[0]
                rep.violation('codec:%s' % what, dict(kind=kind, lo=lo, hi=hi, witness=w))
    # distinct non-trivial: every minimal string is a distinct value class of the bijection; counted by the harness
    nontriv = sum(v for k, v in tot.items() if k.startswith('str') and k.endswith(':minimal'))
    vjobs = [(bindir, i, 1500 if thorough else 300) for i in range(16)]
    for r in parallel(value_job, vjobs):
        rep.merge(r)
    rep.nontrivial = nontriv + len(rep.nontrivial)
    for k, v in tot.items():
        rep.count('sweep', k, v)
    rep.sample(dict(sweep='all byte strings of length 3', cases=tot.get('str3'), minimal=tot.get('str3:minimal'), strict_rejections=tot.get('str3:strict_rejections')))
    exhaustive = thorough and tot.get('str4') == 1 << 32 and tot.get('int') == (1 << 32) + 1
    want3 = 1 << 24
    if tot.get('str3') != want3 or tot.get('str2') != 65536 or tot.get('str1') != 256 or tot.get('str0') != 1:
        rep.inconc('short-string-sweep-incomplete')
    return rep.finish(
        rule='sweeps inside the native harness: every byte string of length 0..3 (and 0..4 in thorough, 2^24 stratified 4-byte strings in quick) is decoded leniently and strictly, '
             're-encoded and compared with the arithmetic definition; every integer of [-2^31,2^31] (thorough; boundary windows in quick) is encoded, checked minimal and decoded; 5-byte strings and int64 values sampled. '
             'distinct_nontrivial = number of distinct *minimal* strings / integers swept (each is one element of the bijection) + distinct Value/tf samples',
        assumptions=['the 30-line arithmetic codec in harness/vharness.cpp (ref_decode/ref_minimal/ref_encode) is the definition of the script-number format',
                     'plain -O2 build for the exhaustive sweep, ASan+UBSan build for the quick slice'],
        exhaustive=exhaustive,
        extra={'strings_len4_swept': tot.get('str4', 0), 'integers_swept': tot.get('int', 0), 'exhaustive_domain': '2^32+2^24+2^16+2^8+1 strings and 2^32+1 integers' if exhaustive else 'strings of length<=3 exhaustive; 4-byte strings and integers stratified'},
        min_events=1 << 24)


if __name__ == '__main__':
    main_wrapper(main)
