"""Workload generators shared by the script-level monitors (C01, C04, C08, C09, C10, C16, C17)."""
import os, sys
from ref.script import *
from ref import script as rs

NUMPOOL = [0, 0, 1, 1, 2, 3, 5, 16, 17, -1, -1, -2, -16, -17, 127, 128, -127, -128, 255, 256, -255, -256,
           32767, 32768, -32767, -32768, 65535, 65536, 8388607, 8388608, -8388607, -8388608,
           2 ** 31 - 1, -(2 ** 31 - 1), 2 ** 31, -(2 ** 31), 2 ** 31 - 2, 2 ** 39 - 1, 2 ** 39]
ODD_NUMS = [b'\x80', b'\x00', b'\x00\x80', b'\x01\x00', b'\xff\x00\x00', b'\x00\x00\x00\x00\x00', b'\x00\x00\x00\x80', b'\x01\x00\x00\x00\x00',
            b'\xff\xff\xff\xff', b'\xff\xff\xff\x7f', b'\x00\x00\x00\x80\x00', b'\xff\xff\xff\xff\x7f', b'\x81', b'\x10', b'\x11']


def rnd_sig(rng):
    rl = rng.choice([1, 2, 32, 33])
    sl = rng.choice([1, 2, 32, 33])
    r = bytes([rng.choice([0, 1, 0x7f, 0x80])]) + bytes(rng.randrange(256) for _ in range(rl - 1))
    s = bytes([rng.choice([0, 1, 0x7f, 0x80, 0xff])]) + bytes(rng.randrange(256) for _ in range(sl - 1))
    body = b'\x02' + bytes([rl]) + r + b'\x02' + bytes([sl]) + s
    sig = b'\x30' + bytes([len(body)]) + body + bytes([rng.choice([0, 1, 2, 3, 4, 0x81, 0x83, 0x84, 0xff])])
    if rng.random() < 0.2:
        b = bytearray(sig)
        b[rng.randrange(len(b))] ^= 1 << rng.randrange(8)
        sig = bytes(b)
    return sig


def rnd_num(rng):
    return num_encode(rng.choice(NUMPOOL))


def rnd_blob(rng):
    n = rng.choice([1, 1, 2, 3, 4, 5, 8, 20, 32, 33, 64, 75, 76, 80])
    return bytes(rng.randrange(256) for _ in range(n))


def rnd_item(rng, sigs=False):
    r = rng.random()
    if r < 0.55:
        return rnd_num(rng)
    if r < 0.65:
        return rng.choice(ODD_NUMS)
    if sigs and r < 0.72:
        return rnd_sig(rng)
    if sigs and r < 0.78:
        return rng.choice([b'\x02' + bytes(32), b'\x03' + bytes([7] * 32), b'\x04' + bytes(64), b'\x06' + bytes(64), bytes(33), b'\x02' * 20, bytes(32), b'\x01' * 32])
    return rnd_blob(rng)


def rnd_push(rng, data):
    """mostly minimal, sometimes deliberately non-minimal encodings"""
    r = rng.random()
    if r < 0.9 or len(data) > 250:
        return push_data(data)
    if r < 0.95:
        return push_only(data) if len(data) else bytes([OP_PUSHDATA1, 0])
    if r < 0.98:
        return bytes([OP_PUSHDATA1, len(data)]) + data
    return bytes([OP_PUSHDATA2, len(data) & 255, len(data) >> 8]) + data


STACK_OPS = [OP_DUP, OP_DROP, OP_SWAP, OP_ROT, OP_OVER, OP_PICK, OP_ROLL, OP_TUCK, OP_NIP, OP_2DUP, OP_3DUP, OP_2OVER, OP_2ROT, OP_2SWAP,
             OP_IFDUP, OP_DEPTH, OP_SIZE, OP_2DROP, OP_TOALTSTACK, OP_FROMALTSTACK]
NEED = {OP_DUP: 1, OP_DROP: 1, OP_SWAP: 2, OP_ROT: 3, OP_OVER: 2, OP_PICK: 2, OP_ROLL: 2, OP_TUCK: 2, OP_NIP: 2, OP_2DUP: 2, OP_3DUP: 3, OP_2OVER: 4,
        OP_2ROT: 6, OP_2SWAP: 4, OP_IFDUP: 1, OP_DEPTH: 0, OP_SIZE: 1, OP_2DROP: 2, OP_TOALTSTACK: 1, OP_FROMALTSTACK: 0,
        OP_EQUAL: 2, OP_EQUALVERIFY: 2, OP_VERIFY: 1,
        OP_RIPEMD160: 1, OP_SHA1: 1, OP_SHA256: 1, OP_HASH160: 1, OP_HASH256: 1}
NUM1 = [OP_1ADD, OP_1SUB, OP_NEGATE, OP_ABS, OP_NOT, OP_0NOTEQUAL]
NUM2 = [OP_ADD, OP_SUB, OP_BOOLAND, OP_BOOLOR, OP_NUMEQUAL, OP_NUMEQUALVERIFY, OP_NUMNOTEQUAL, OP_LESSTHAN, OP_GREATERTHAN,
        OP_LESSTHANOREQUAL, OP_GREATERTHANOREQUAL, OP_MIN, OP_MAX]
HASHES = [OP_RIPEMD160, OP_SHA1, OP_SHA256, OP_HASH160, OP_HASH256]
NOPS = [OP_NOP, OP_NOP1, OP_NOP4, OP_NOP5, OP_NOP6, OP_NOP7, OP_NOP8, OP_NOP9, OP_NOP10, OP_CHECKLOCKTIMEVERIFY, OP_CHECKSEQUENCEVERIFY]
RESERVED_OPS = [OP_RESERVED, OP_VER, OP_VERIF, OP_VERNOTIF, OP_RESERVED1, OP_RESERVED2, OP_RETURN]
SIGOPS = [OP_CHECKSIG, OP_CHECKSIGVERIFY, OP_CHECKMULTISIG, OP_CHECKMULTISIGVERIFY, OP_CHECKSIGADD]
ALL_OPS = list(range(0x4f, 0xbb))


def _isnum(b, minimal):
    try:
        num_decode(b, minimal, 4)
        return True
    except NumErr:
        return False


def gen_deep(rng, sv, flags, nops, stack=(), sigops=False, allow_disabled=False, fail_keep=0.25):
    """Grammar-directed generation steered by a running model so that executions go deep:
    with p~0.85 the next operation is one whose operands are available in the current state."""
    it = Interp(b'', list(stack), flags, sv, allow_disabled=allow_disabled)
    script = b''
    minimal = bool(flags & F["MINIMALDATA"])
    tries = 0
    count = 0
    while count < nops and tries < nops * 4 and len(script) < 9000:
        tries += 1
        st = it.stack
        fexec = all(it.vf)
        r = rng.random()
        op = None
        if not fexec:
            # inside an unexecuted branch: anything goes, but get out of it eventually
            rr = rng.random()
            if rr < 0.35:
                op = bytes([rng.choice([OP_ELSE, OP_ENDIF])])
            elif rr < 0.45:
                op = bytes([rng.choice([OP_IF, OP_NOTIF])])
            elif rr < 0.6:
                op = bytes([rng.choice(RESERVED_OPS + NOPS)])
            elif rr < 0.8:
                op = rnd_push(rng, rnd_item(rng, sigops))
            else:
                op = bytes([rng.choice(ALL_OPS)])
        elif r < 0.30 or len(st) == 0:
            op = rnd_push(rng, rnd_item(rng, sigops))
        elif r < 0.85:
            # operand-aware choice
            cands = []
            d = len(st)
            cands += [o for o in STACK_OPS if NEED[o] <= d and (o != OP_FROMALTSTACK or it.alt)]
            if d >= 1 and _isnum(st[-1], minimal):
                cands += NUM1
                if d >= 2 and _isnum(st[-2], minimal):
                    cands += NUM2 + NUM2
                    if d >= 3 and _isnum(st[-3], minimal):
                        cands += [OP_WITHIN] * 3
            if d >= 1:
                cands += HASHES[:2] + [rng.choice(HASHES)]
                cands += [OP_VERIFY, OP_IF, OP_NOTIF, OP_IF, OP_NOTIF]
            if d >= 2:
                cands += [OP_EQUAL, OP_EQUALVERIFY]
            if it.vf:
                cands += [OP_ELSE, OP_ENDIF, OP_ENDIF]
            cands += [rng.choice(NOPS)]
            o = rng.choice(cands)
            if o in (OP_PICK, OP_ROLL):
                # replace the index operand with one at 0 / depth-1 / depth (boundary) most of the time
                depth = len(st)
                idx = rng.choice([0, 0, 1, depth - 1, depth - 1, depth, depth - 2, -1])
                op = push_num(idx) + bytes([o])
            elif o in (OP_IF, OP_NOTIF) and rng.random() < 0.8:
                # make the condition minimal-if friendly most of the time
                op = bytes([rng.choice([OP_0, OP_1, OP_1, OP_0]), o]) if rng.random() < 0.7 else bytes([o])
            else:
                op = bytes([o])
        elif r < 0.90:
            op = bytes([rng.choice([OP_IF, OP_NOTIF, OP_ELSE, OP_ENDIF])])
        elif r < 0.93 and sigops:
            op = bytes([rng.choice(SIGOPS)])
        elif r < 0.96:
            op = bytes([rng.choice(NOPS + RESERVED_OPS[:2])])
        else:
            op = bytes([rng.choice(ALL_OPS)])
            if not sigops and op[0] in SIGOPS:
                op = bytes([OP_NOP])
        # try it on the model
        save = (list(it.stack), list(it.alt), list(it.vf), it.pc, it.nop, it.begincode, it.opcode_pos, it.codesep_pos)
        it.script = script + op
        ok = True
        try:
            while it.pc < len(it.script):
                it.step()
        except (ScriptFail, NumErr):
            ok = False
        if ok:
            script += op
            count += 1
            continue
        if rng.random() < fail_keep:
            script += op       # keep the failing op: the script ends in an error here
            break
        it.stack, it.alt, it.vf, it.pc, it.nop, it.begincode, it.opcode_pos, it.codesep_pos = save[0], save[1], save[2], save[3], save[4], save[5], save[6], save[7]
        it.script = script
    # close open conditionals most of the time
    if it.vf and rng.random() < 0.85:
        script += bytes([OP_ENDIF]) * len(it.vf)
    return script


def gen_random_ops(rng, sigops=False):
    out = b''
    for _ in range(rng.randint(1, 25)):
        r = rng.random()
        if r < 0.35:
            out += rnd_push(rng, rnd_item(rng, sigops))
        elif r < 0.45:
            out += bytes([rng.choice([OP_IF, OP_NOTIF, OP_ELSE, OP_ENDIF])])
        elif r < 0.9:
            o = rng.choice(STACK_OPS + NUM1 + NUM2 + [OP_WITHIN, OP_VERIFY, OP_EQUAL, OP_EQUALVERIFY] + HASHES + NOPS + [OP_CODESEPARATOR])
            out += bytes([o])
        else:
            o = rng.choice(ALL_OPS)
            if not sigops and o in SIGOPS:
                o = OP_NOP
            out += bytes([o])
    return out


def gen_bytes(rng, sigops=False):
    """byte-level: random strings and mutations of valid scripts (refusal clause)"""
    r = rng.random()
    if r < 0.3:
        s = bytes(rng.randrange(256) for _ in range(rng.randint(1, 30)))
    else:
        s = bytearray(gen_random_ops(rng, sigops))
        m = rng.random()
        if m < 0.3 and s:
            s = s[:rng.randrange(len(s) + 1)]
        elif m < 0.6 and s:
            s[rng.randrange(len(s))] = rng.choice([0x4c, 0x4d, 0x4e, 0xbb, 0xff, 0xba, 0x4b, 0x02])
        elif m < 0.8:
            s += bytes([rng.choice([0x4c, 0x4d, 0x4e, 0x05, 0xbb, 0xff, 0xfe])])
        else:
            n = rng.choice([519, 520, 521, 600])
            s += bytes([0x4d, n & 255, n >> 8]) + bytes(n)
        s = bytes(s)
    if not sigops:
        # keep the C01 domain free of signature opcodes: neutralise them where they decode as opcodes
        ops = decode_all(s)
        if ops is not None and any(o in SIGOPS for o, d in ops):
            out = b''
            pc = 0
            while pc < len(s):
                o, d, npc = get_op(s, pc)
                out += bytes([OP_NOP]) if o in SIGOPS else s[pc:npc]
                pc = npc
            s = out
    return s


def strip_sigops(s):
    """replace signature opcodes (where they decode as opcodes) by OP_NOP: C01's domain excludes them"""
    out = b''
    pc = 0
    while pc < len(s):
        r = get_op(s, pc)
        if r is None:
            return out + s[pc:]
        o, d, npc = r
        out += bytes([OP_NOP]) if o in SIGOPS else s[pc:npc]
        pc = npc
    return out


# flag sets -----------------------------------------------------------------------------------------
EXEC_FLAGS = ["P2SH", "MINIMALDATA", "MINIMALIF", "DISCOURAGE_UPGRADABLE_NOPS", "CHECKLOCKTIMEVERIFY", "CHECKSEQUENCEVERIFY",
              "CONST_SCRIPTCODE", "DISCOURAGE_OP_SUCCESS", "NULLDUMMY", "STRICTENC", "DERSIG", "LOW_S", "NULLFAIL", "WITNESS_PUBKEYTYPE",
              "DISCOURAGE_UPGRADABLE_PUBKEYTYPE", "CLEANSTACK"]


def flag_sets():
    out = [STANDARD, 0, ALL_FLAGS]
    for n in FLAG_NAMES:
        out.append(STANDARD & ~F[n])
        out.append(F[n])
    return out


def rnd_flags(rng):
    r = rng.random()
    if r < 0.35:
        return STANDARD
    if r < 0.45:
        return 0
    if r < 0.7:
        return rng.choice(flag_sets())
    if r < 0.85:
        f = STANDARD
        for _ in range(rng.randint(1, 3)):
            f ^= F[rng.choice(EXEC_FLAGS)]
        return f
    return rng.getrandbits(21)


def rnd_stack(rng, sigs=False):
    return [rnd_item(rng, sigs) for _ in range(rng.choice([0, 0, 0, 1, 1, 2, 3, 5, 8]))]


# exhaustive alphabet --------------------------------------------------------------------------------
def alphabet():
    """Every opcode 0x00..0xba once as a complete token, with representative payloads for the push
    opcodes (incl. non-minimal ones); plus truncated/oversized forms that only make sense last."""
    toks = [bytes([0])]
    one = [0x00, 0x01, 0x05, 0x10, 0x11, 0x80, 0x81, 0xff, 0x7f]
    for b in one:
        toks.append(bytes([1, b]))
    for p in [b'\x00\x00', b'\x01\x00', b'\xff\x00', b'\xff\x80', b'\x00\x80', b'\x34\x12']:
        toks.append(bytes([2]) + p)
    for p in [b'\x00\x00\x00', b'\xff\xff\x00', b'\x01\x00\x80']:
        toks.append(bytes([3]) + p)
    for p in [b'\xff\xff\xff\x7f', b'\x00\x00\x00\x80', b'\xff\xff\xff\xff', b'\x01\x00\x00\x00']:
        toks.append(bytes([4]) + p)
    for p in [b'\x00\x00\x00\x80\x00', b'\xff\xff\xff\xff\x7f', b'\x01\x02\x03\x04\x05']:
        toks.append(bytes([5]) + p)
    for n in range(6, 76):
        toks.append(bytes([n]) + bytes((7 * n + i) & 0xff for i in range(n)))
    toks.append(bytes([OP_PUSHDATA1, 0]))
    toks.append(bytes([OP_PUSHDATA1, 1, 5]))
    toks.append(bytes([OP_PUSHDATA1, 1, 0x42]))
    toks.append(bytes([OP_PUSHDATA1, 75]) + bytes(75))
    toks.append(bytes([OP_PUSHDATA1, 76]) + bytes(range(76)))
    toks.append(bytes([OP_PUSHDATA1, 255]) + bytes(255))
    toks.append(bytes([OP_PUSHDATA2, 0, 0]))
    toks.append(bytes([OP_PUSHDATA2, 1, 0, 9]))
    toks.append(bytes([OP_PUSHDATA2, 0, 1]) + bytes(256))
    toks.append(bytes([OP_PUSHDATA2, 0x08, 0x02]) + bytes(520))
    toks.append(bytes([OP_PUSHDATA4, 0, 0, 0, 0]))
    toks.append(bytes([OP_PUSHDATA4, 1, 0, 0, 0, 0x33]))
    for o in range(0x4f, 0xbb):
        toks.append(bytes([o]))
    last_only = [bytes([5, 1, 2]), bytes([OP_PUSHDATA1]), bytes([OP_PUSHDATA1, 3, 1]), bytes([OP_PUSHDATA2, 1]), bytes([OP_PUSHDATA2, 4, 0, 1]),
                 bytes([OP_PUSHDATA4, 1, 0, 0]), bytes([OP_PUSHDATA4, 2, 0, 0, 0, 1]), bytes([OP_PUSHDATA2, 0x09, 0x02]) + bytes(521),
                 bytes([0xbb]), bytes([0xfe]), bytes([0xff]), bytes([75]) + bytes(74)]
    return toks, last_only


EXH_STACKS = [[], [b''], [b'\x01'], [b'\x02'], [b'\x80'], [b'\x01', b'\x01'], [b'\x05', b'\x03'], [b'', b'\x01', b'\x02'],
              [b'\x01', b'\x02', b'\x03', b'\x04', b'\x05', b'\x06'], [b'\xff\xff\xff\x7f', b'\x01'], [b'\x00\x00\x00\x00\x01', b'\x01'], [b'abc', b'abc']]
EXH_FLAGS = [STANDARD, 0, STANDARD & ~F["MINIMALDATA"] & ~F["MINIMALIF"] & ~F["DISCOURAGE_UPGRADABLE_NOPS"], ALL_FLAGS]
