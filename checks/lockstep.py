"""Lock-step comparison of harness step events with the reference Session."""
from ref.script import *
from vf.common import hexs, items, parse_items

ERR = ERRNAMES


class Ev:
    """one S/U/R/C/X/D state event from the harness"""
    __slots__ = ('kind', 'ret', 'err', 'exc', 'nop', 'done', 'vf', 'pc', 'cs', 'seq', 'opc', 'cspos', 'weight', 'p2sh', 'tcei', 'succ', 'sv', 'leaf', 'stack', 'alt', 'opos', 'raw')

    def __init__(self, line):
        t = line.split(' ')
        self.raw = line
        self.kind = t[0]
        self.ret = t[1] == '1'
        self.err = ERR[int(t[2])] if int(t[2]) < len(ERR) else 'ERR%s' % t[2]
        self.exc = '' if t[3] == '-' else bytes.fromhex(t[3][1:]).decode('latin1')
        self.nop = int(t[4])
        self.done = t[5] == '1'
        self.vf = (int(t[6]), int(t[7]))
        self.pc = int(t[8])
        self.cs = int(t[9])
        self.seq = int(t[10])
        self.opc = int(t[11])
        self.cspos = int(t[12])
        self.weight = int(t[13])
        self.p2sh = t[14] == '1'
        self.tcei = int(t[15])
        self.succ = t[16]
        self.sv = int(t[17])
        self.leaf = t[18]
        self.stack = parse_items(t[19])
        self.alt = parse_items(t[20])
        self.opos = int(t[21]) if len(t) > 21 else 0     # BIP342 opcode position (what a later OP_CODESEPARATOR records)

    def state(self):
        """the complete observable state tuple (used by relational monitors)"""
        return (tuple(self.stack), tuple(self.alt), self.vf, self.nop, self.pc, self.cs, self.seq, self.done, self.cspos, self.weight, self.p2sh, self.tcei, self.succ, self.opos)


STATE_KINDS = ('S', 'U', 'R', 'C', 'X', 'D')


def parse_events(lines):
    """split a case's raw lines into a list of (tag, obj): state events as Ev, others as token lists"""
    out = []
    for l in lines:
        k = l.split(' ', 1)[0]
        if k in STATE_KINDS and l.count(' ') >= 20:
            out.append((k, Ev(l)))
        else:
            out.append((k, l.split(' ')))
    return out


def exc_kind(exc):
    if not exc:
        return None
    if 'overflow' in exc:
        return 'NUM_overflow'
    if 'minimal' in exc:
        return 'NUM_nonminimal'
    return 'EXC:' + exc[:40]


def case_cmds(cid, script, stack, flags, sv, allow=False, tail=('CS',), extra=()):
    cmds = ['N %s' % cid, 'SV %d' % sv, 'FL %d' % flags, 'AD %d' % (1 if allow else 0)]
    cmds += list(extra)
    cmds.append('SC %s' % hexs(script))
    if stack:
        cmds.append('ST %s' % items(stack))
    cmds.append('SU')
    cmds += list(tail)
    return cmds


def num_results_match(ref_item, impl_item):
    """ref stack items may be ('num', [acceptable values]) for the re-enabled numeric opcodes"""
    if isinstance(ref_item, tuple):
        vals = ref_item[1]
        for v in vals:
            if v is None:
                return True            # result undefined by the property (e.g. shift >= 64): any value accepted
            if impl_item == num_encode(v):
                return True
        return False
    return ref_item == impl_item


def stacks_equal(ref, impl):
    if len(ref) != len(impl):
        return False
    for a, b in zip(ref, impl):
        if not num_results_match(a, b):
            return False
    return True


def normalise_ref_stack(sess, impl_stack):
    """once a ('num', ...) alternative has been matched, pin the reference to the value the
    implementation chose so that subsequent operations are judged on the same operands"""
    st = sess.cur.stack
    for i, a in enumerate(st):
        if isinstance(a, tuple) and i < len(impl_stack):
            st[i] = impl_stack[i]


def compare_session(evs, sess, check_nop=True):
    """evs: list of Ev for the successive steps of the implementation (kind 'S');
    sess: reference Session at the same starting point.
    Returns (verdict_key | None, info dict). verdict None = agreement."""
    info = {'steps': 0, 'outcome': None, 'ops': []}
    i = 0
    while True:
        if sess.done:
            # reference says: nothing more to execute.
            if i < len(evs):
                return ('impl-continues-after-end', info)
            info['outcome'] = info['outcome'] or 'done'
            return (None, info)
        r = sess.step()
        if i >= len(evs):
            return ('impl-stops-early:ref=%s' % (r[0] if r[0] != 'fail' else r[1]), info)
        e = evs[i]
        i += 1
        info['steps'] += 1
        if r[0] == 'ok':
            if sess.cur.last and r[1] == 'op':
                info['ops'].append(sess.cur.last[0])
            if not e.ret:
                return ('impl-fails-ref-ok:%s%s' % (e.err, (':' + (exc_kind(e.exc) or '')) if e.exc else ''), info)
            if not stacks_equal(sess.cur.stack, e.stack):
                return ('stack-differs', info)
            normalise_ref_stack(sess, e.stack)
            if not stacks_equal(sess.cur.alt, e.alt):
                return ('altstack-differs', info)
            if sess.cur.vfstate() != e.vf:
                return ('condition-stack-differs', info)
            if check_nop and sess.cur.nop != e.nop:
                return ('opcount-differs', info)
            if e.done:
                return ('impl-done-early', info)
        elif r[0] == 'done':
            if not (e.ret and e.done and e.err == 'OK'):
                return ('terminal-differs:impl=%s' % (e.err if not e.ret else 'not-done'), info)
            info['outcome'] = 'success'
            if i < len(evs):
                return ('impl-continues-after-end', info)
            return (None, info)
        else:  # fail
            code = r[1]
            info['outcome'] = 'fail:' + code
            info['fail_kind'] = r[2]
            if e.ret:
                return ('impl-ok-ref-fails:%s' % code, info)
            ek = exc_kind(e.exc)
            if code.startswith('NUM_'):
                if ek != code:
                    return ('error-differs:ref=%s:impl=%s' % (code, ek or e.err), info)
            elif code == 'ANY':
                if ek is not None and not ek.startswith('NUM_'):
                    return ('error-differs:ref=script-error:impl=%s' % ek, info)
            else:
                if ek is not None or e.err != code:
                    return ('error-differs:ref=%s:impl=%s' % (code, ek or e.err), info)
            if i < len(evs):
                return ('impl-continues-after-failure', info)
            return (None, info)
