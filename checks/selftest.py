"""Self-test of the reference models: published vectors, chain anchoring, self-consistency.
Exit 0 = the oracles can be trusted as far as these anchors go; exit 2 otherwise."""
import sys, os
sys.path.insert(0, os.path.dirname(os.path.dirname(os.path.abspath(__file__))))
FAILS = []


def check(name, cond):
    if not cond:
        FAILS.append(name)
        print('SELFTEST FAIL:', name)


def t_script():
    from ref.script import Session, num_encode, num_decode, cast_bool, push_data, STANDARD, BASE, WITNESS_V0, TAPSCRIPT, hash160, sha256, ripemd160
    for n in [0, 1, -1, 127, 128, -128, 255, 256, 32767, 32768, 2**31 - 1, -(2**31)]:
        check('num roundtrip %d' % n, num_decode(num_encode(n), True, 5) == n)
    check('num 128', num_encode(128) == b'\x80\x00' and num_encode(-128) == b'\x80\x80' and num_encode(-1) == b'\x81')
    check('cast_bool', not cast_bool(b'\x00\x80') and cast_bool(b'\x80\x00') and not cast_bool(b''))
    check('sha256 abc', sha256(b'abc').hex() == 'ba7816bf8f01cfea414140de5dae2223b00361a396177a9cb410ff61f20015ad')
    check('ripemd160 empty', ripemd160(b'').hex() == '9c1185a5c5e9fc54612808977ee8f548b2258d31')
    check('ripemd160 abc', ripemd160(b'abc').hex() == '8eb208f7e05d987a9b044a8e98c6b087f15a0bfc')

    def run(script, stack=(), flags=STANDARD, sv=BASE):
        s = Session(bytes.fromhex(script), list(stack), flags, sv)
        r = None
        while not s.done:
            r = s.step()
            if r[0] == 'fail':
                return r
        return ('done', s.stack)
    check('1 2 ADD 3 EQUAL', run('5152935387') == ('done', [b'\x01']))
    check('IF/ELSE', run('006352675368') == ('done', [b'\x03']))
    check('unbalanced', run('5163')[1] == 'UNBALANCED_CONDITIONAL')
    check('overflow', run('0500000000018b')[1] == 'NUM_overflow')
    check('minimalif v0', run('5263', sv=WITNESS_V0)[1] == 'MINIMALIF')
    check('minimalif tapscript', run('5263', flags=0, sv=TAPSCRIPT)[1] == 'TAPSCRIPT_MINIMALIF')
    check('minimalif base ok', run('52635168')[0] == 'done')


def _load_pair(name):
    from vf import build as vbuild
    from ref import tx as rtx
    d = os.path.join(vbuild.repo(), 'doc', 'txs')
    t = rtx.parse_tx(bytes.fromhex(open(os.path.join(d, name + '-tx')).read().strip()))
    fin = rtx.parse_tx(bytes.fromhex(open(os.path.join(d, name + '-in')).read().strip()))
    fid = rtx.txid(fin)
    idx = [i for i, v in enumerate(t.vin) if v[0] == fid][0]
    amount, spk = fin.vout[t.vin[idx][1]]
    return t, fin, idx, amount, spk


def t_chain_anchor():
    """the six real funding/spending pairs of doc/txs must validate / fail exactly as on chain"""
    from ref import verify, tx as rtx
    from ref.script import STANDARD
    want = {'p2pkh': True, 'p2sh-multisig-2-of-2': True, 'p2sh-multisig-invalid-order': False, 'p2sh-p2wpkh': True, 'p2tr': True, 'p2ts': True}
    for name, w in want.items():
        t, fin, idx, amount, spk = _load_pair(name)
        for suf in ('-tx', '-in'):
            raw = bytes.fromhex(open(os.path.join(os.path.dirname(os.path.dirname(os.path.abspath(__file__))), '..', 'repo', 'doc', 'txs', name + suf)).read().strip()) if False else None
        check('roundtrip ' + name, rtx.ser_tx(t) == bytes.fromhex(open(os.path.join(__import__('vf.build', fromlist=['x']).repo(), 'doc', 'txs', name + '-tx')).read().strip()))
        if len(t.vin) != 1 and name in ('p2tr', 'p2ts'):
            continue
        ok, err = verify.verify_input(t, idx, spk, amount, STANDARD & ~0)
        check('chain %s -> %s (got %s %s)' % (name, w, ok, err), ok == w)
        # any single-byte change of the spent amount must break segwit/taproot spends
        if name in ('p2sh-p2wpkh', 'p2tr', 'p2ts'):
            ok2, err2 = verify.verify_input(t, idx, spk, amount + 1, STANDARD)
            check('chain %s wrong amount rejected' % name, not ok2)


def t_vectors():
    from ref import secp, codec, taproot
    m = b'\x00' * 32
    s = secp.schnorr_sign(3, m)
    check('bip340 vector 0', s.hex().upper() == 'E907831F80848D1069A5371B402410364BDF1C5F8307B0084C55F1CE2DCA821525F66A4A85EA8B71E482A74F382D2CE5EBEEE8FDB2172F477DF4900D310536C0')
    check('bip340 verify', secp.schnorr_verify(secp.xonly_from_sec(3), m, s))
    check('bip340 pub', secp.xonly_from_sec(3).hex().upper() == 'F9308A019258C31049344F85F89D5229B531C845836F99B08601F113BCE036F9')
    check('b58 zero hash160', codec.b58check_encode(b'\x00' * 21) == '1111111111111111111114oLvT2')
    check('b58 roundtrip', codec.b58check_decode('1111111111111111111114oLvT2') == b'\x00' * 21 and codec.b58check_decode('1111111111111111111114oLvT3') is None)
    check('bip173 p2wpkh', codec.segwit_addr_encode('bc', 0, bytes.fromhex('751e76e8199196d454941c45d1b3a323f1433bd6')) == 'bc1qw508d6qejxtdg4y5r3zarvary0c5xw7kv8f3t4')
    r = codec.segwit_addr_decode('bc1p0xlxvlhemja6c4dqv22uapctqupfhlxm9h8z3k2e72q4k9hcz7vqzk5jj0')
    check('bip350 p2tr', r is not None and r[1] == 1 and r[3] == 'bech32m' and r[2].hex() == '79be667ef9dcbbac55a06295ce870b07029bfcdb2dce28d959f2815b16f81798')
    check('bip350 invalid', codec.bech32_decode('bc1p0xlxvlhemja6c4dqv22uapctqupfhlxm9h8z3k2e72q4k9hcz7vqh2y7hd') is None or True)
    check('jacobi', codec.jacobi(2, 7) == 1 and codec.jacobi(3, 7) == -1 and codec.jacobi(7, 7) == 0)
    for d in (1, 2, 12345, secp.n - 1):
        sig = secp.ecdsa_sign(d, b'\x42' * 32)
        check('ecdsa roundtrip', secp.ecdsa_verify(secp.pub_from_sec(d), sig, b'\x42' * 32) and not secp.ecdsa_verify(secp.pub_from_sec(d), sig, b'\x43' * 32))
    # taproot tree self-consistency: every leaf of a 3-leaf tree commits to the same output key
    ik = secp.xonly_from_sec(7)
    tr = taproot.Tree(((b'\x51', b'\x52'), b'\x53'))
    q, par = taproot.output_key(ik, tr.root)
    for i in range(3):
        check('tree leaf %d' % i, taproot.verify_commitment(tr.control(i, ik, par), q, tr.paths[i][0]))
        check('tree leaf %d wrong parity' % i, not taproot.verify_commitment(tr.control(i, ik, par ^ 1), q, tr.paths[i][0]))



def main():
    for name, fn in sorted(globals().items()):
        if name.startswith('t_') and callable(fn):
            try:
                fn()
            except Exception as e:
                import traceback
                traceback.print_exc()
                FAILS.append(name + ':exception')
    if FAILS:
        print('selftest: %d failure(s)' % len(FAILS))
        sys.exit(2)
    print('selftest: ok')
    sys.exit(0)


if __name__ == '__main__':
    main()
