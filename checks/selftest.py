"""Self-test of the reference models: published vectors, chain anchoring, self-consistency.
Exit 0 = the oracles can be trusted as far as these anchors go; exit 2 otherwise."""
import sys, os
sys.path.insert(0, os.path.dirname(os.path.dirname(os.path.abspath(__file__))))
FAILS = []


def check(name, cond):
    if not cond:
        FAILS.append(name)
        print('SELFTEST FAIL:', name)


def t_script():
    from ref.script import Session, num_encode, num_decode, cast_bool, push_data, STANDARD, BASE, WITNESS_V0, TAPSCRIPT, hash160, sha256, ripemd160
    for n in [0, 1, -1, 127, 128, -128, 255, 256, 32767, 32768, 2**31 - 1, -(2**31)]:
        check('num roundtrip %d' % n, num_decode(num_encode(n), True, 5) == n)
    check('num 128', num_encode(128) == b'\x80\x00' and num_encode(-128) == b'\x80\x80' and num_encode(-1) == b'\x81')
    check('cast_bool', not cast_bool(b'\x00\x80') and cast_bool(b'\x80\x00') and not cast_bool(b''))
    check('sha256 abc', sha256(b'abc').hex() == 'ba7816bf8f01cfea414140de5dae2223b00361a396177a9cb410ff61f20015ad')
    check('ripemd160 empty', ripemd160(b'').hex() == '9c1185a5c5e9fc54612808977ee8f548b2258d31')
    check('ripemd160 abc', ripemd160(b'abc').hex() == '8eb208f7e05d987a9b044a8e98c6b087f15a0bfc')

    def run(script, stack=(), flags=STANDARD, sv=BASE):
        s = Session(bytes.fromhex(script), list(stack), flags, sv)
        r = None
        while not s.done:
            r = s.step()
            if r[0] == 'fail':
                return r
        return ('done', s.stack)
    check('1 2 ADD 3 EQUAL', run('5152935387') == ('done', [b'\x01']))
    check('IF/ELSE', run('006352675368') == ('done', [b'\x03']))
    check('unbalanced', run('5163')[1] == 'UNBALANCED_CONDITIONAL')
    check('overflow', run('0500000000018b')[1] == 'NUM_overflow')
    check('minimalif v0', run('5263', sv=WITNESS_V0)[1] == 'MINIMALIF')
    check('minimalif tapscript', run('5263', flags=0, sv=TAPSCRIPT)[1] == 'TAPSCRIPT_MINIMALIF')
    check('minimalif base ok', run('52635168')[0] == 'done')


def main():
    for name, fn in sorted(globals().items()):
        if name.startswith('t_') and callable(fn):
            try:
                fn()
            except Exception as e:
                import traceback
                traceback.print_exc()
                FAILS.append(name + ':exception')
    if FAILS:
        print('selftest: %d failure(s)' % len(FAILS))
        sys.exit(2)
    print('selftest: ok')
    sys.exit(0)


if __name__ == '__main__':
    main()
