// vfuzz — libFuzzer entry points for the C15 monitor (clang, -fsanitize=fuzzer,address,undefined).
// One binary, the target is chosen with the environment variable VFUZZ_TARGET:
//   value   : Value(<string>), Value::parse_args(<string>) + serialize   (btcc / script and stack arguments)
//   tf      : fn_tf(<line>)                                              (the interactive `tf` command)
//   tx      : parse_tx(<hex text>) and Instance::parse_transaction(<amounts:hex>)
//   script  : Instance over raw script bytes + stack, stepped to the end with rewinds / exec sprinkled in
//   spend   : --tx/--txin session: parse, select, configure_tx_txin, setup, run to the end
// Library code calls exit() on some diagnostics ("parse error ... exit(1)"): that is a legitimate termination, so
// exit is wrapped (-Wl,--wrap=exit) and turned into a longjmp back to the fuzz loop.
#include <instance.h>
#include <functions.h>
#include <cstdio>
#include <cstring>
#include <csetjmp>
#include <string>
#include <vector>
#include <unistd.h>
#include <fcntl.h>

CTransactionRef parse_tx(const char* p);

static jmp_buf g_exit_jmp;
static bool g_in_target = false;
extern "C" void __real_exit(int);
extern "C" void __wrap_exit(int code) {
    if (g_in_target) longjmp(g_exit_jmp, 1);
    __real_exit(code);
}

// the nesting counter of Value::parse_args, where the tree has one (detected, so that older trees still build)
template <class T> auto reset_nesting(int) -> decltype(T::parse_nesting = 0, void()) { T::parse_nesting = 0; }
template <class T> void reset_nesting(long) {}

static int g_target = 0;
static void quiet(const char*...) {}

extern "C" int LLVMFuzzerInitialize(int*, char***) {
    const char* t = getenv("VFUZZ_TARGET");
    std::string s = t ? t : "value";
    g_target = s == "value" ? 0 : s == "tf" ? 1 : s == "tx" ? 2 : s == "script" ? 3 : 4;
    btc_logf = btc_logf_dummy;
    VALUE_WARN = false;
    // the library prints results and diagnostics: send them to /dev/null
    int fd = open("/dev/null", O_WRONLY);
    if (fd >= 0) { dup2(fd, 1); FILE* e = fdopen(dup(fd), "w"); if (e) stderr = e; }
    return 0;
}

static std::string text_of(const uint8_t* data, size_t size) {
    std::string s((const char*)data, size);
    for (auto& c : s) if (c == 0) c = ' ';
    return s;
}

static void t_value(const uint8_t* data, size_t size) {
    std::string s = text_of(data, size);
    try {
        Value v(s.c_str());
        (void)v.hex_str(); (void)Value(v).data_value(); (void)v.to_string();
        if (v.type != Value::T_STRING) { try { (void)v.int_value(); } catch (const std::exception&) {} }
    } catch (const std::exception&) {}
    if (s.empty()) return;   // parse_args(const char*) is only ever called on a non-empty bracket body by the tools
    try {
        auto vs = Value::parse_args(s.c_str());
        (void)Value::serialize(vs);
    } catch (const std::exception&) {}
}

static void t_tf(const uint8_t* data, size_t size) {
    std::string s = text_of(data, size);
    for (auto& c : s) if (c == '"' || c == '\'' || c == '\\' || c == '\n' || c == '\r') c = ' ';   // quoting makes kerl ask for more input
    fn_tf(s.c_str());
}

static void t_tx(const uint8_t* data, size_t size) {
    std::string s = text_of(data, size);
    try { (void)parse_tx(s.c_str()); } catch (const std::exception&) {}
    Instance inst;
    try { inst.parse_transaction(s.c_str(), true); } catch (const std::exception&) {}
}

static void t_script(const uint8_t* data, size_t size) {
    if (size < 4) return;
    Instance inst;
    uint8_t sv = data[0] % 3;
    unsigned flags = (data[1] | (data[2] << 8) | ((unsigned)(data[3] & 0x1f) << 16));
    if (data[3] & 0x80) flags = STANDARD_SCRIPT_VERIFY_FLAGS;
    bool allow = data[3] & 0x40;
    size_t nst = size > 4 ? data[4] % 5 : 0;
    size_t p = 5;
    for (size_t i = 0; i < nst && p < size; ++i) {
        size_t l = data[p++] % 40;
        if (p + l > size) l = size - p;
        inst.stack.emplace_back(data + p, data + p + l);
        p += l;
    }
    if (p > size) p = size;
    std::vector<uint8_t> script(data + p, data + size);
    if (!inst.parse_script(script)) return;
    inst.sigver = sv == 0 ? SigVersion::BASE : sv == 1 ? SigVersion::WITNESS_V0 : SigVersion::TAPSCRIPT;
    if (sv == 2) { inst.execdata.m_validation_weight_left = 500; inst.execdata.m_validation_weight_left_init = true; }
    if (!inst.setup_environment(flags)) return;
    inst.env->allow_disabled_opcodes = allow;
    int guard = 0;
    const char* ex1[] = {(char*)"OP_DUP"};
    const char* ex2[] = {(char*)"OP_CODESEPARATOR", (char*)"OP_1"};
    while (!inst.env->done && guard++ < 3000) {
        bool ok = inst.step();
        uint8_t r = data[(guard * 7) % size];
        if ((r & 0x1f) == 1) inst.rewind();
        if ((r & 0x3f) == 2) inst.eval(1, (char* const*)ex1);
        if ((r & 0x7f) == 3) inst.eval(2, (char* const*)ex2);
        if (!ok && (r & 3)) break;
    }
}

static void t_spend(const uint8_t* data, size_t size) {
    // "<tx hex> <txin hex> [select]"
    std::string s = text_of(data, size);
    size_t a = s.find(' ');
    if (a == std::string::npos) return;
    size_t b = s.find(' ', a + 1);
    std::string tx = s.substr(0, a), txin = s.substr(a + 1, b == std::string::npos ? std::string::npos : b - a - 1);
    int sel = b == std::string::npos ? -1 : atoi(s.c_str() + b + 1);
    Instance inst;
    try {
        if (!inst.parse_transaction(tx.c_str(), true)) return;
        if (!inst.parse_input_transaction(txin.c_str(), sel)) return;
    } catch (const std::exception&) { return; }
    if (!inst.configure_tx_txin()) return;
    if (!inst.setup_environment(STANDARD_SCRIPT_VERIFY_FLAGS)) return;
    int guard = 0;
    while (!inst.env->done && guard++ < 3000) {
        if (!inst.step()) break;
        if ((guard % 11) == 5) inst.rewind();
    }
}

extern "C" int LLVMFuzzerTestOneInput(const uint8_t* data, size_t size) {
    if (size > 20000) return 0;
    g_in_target = true;
    reset_nesting<Value>(0);       // (an exit() taken from inside nested parsing was turned into a longjmp: no unwinding happened)
    if (setjmp(g_exit_jmp) == 0) {
        switch (g_target) {
        case 0: t_value(data, size); break;
        case 1: t_tf(data, size); break;
        case 2: t_tx(data, size); break;
        case 3: t_script(data, size); break;
        default: t_spend(data, size); break;
        }
    }
    g_in_target = false;
    fflush(stdout);
    return 0;
}
