// vharness — native driver + event recorder for the btcdeb verification monitors.
//
// Links the tree's own objects (instance.cpp, functions.cpp, libbitcoin, libbitcoin_deb, kerl,
// secp256k1) exactly like test-btcdeb does.  It holds NO expectations about script semantics
// (except the tiny integer codec oracle used by the exhaustive C18 loops): it executes commands
// read from stdin and records what the implementation did, one event line per command on fd 3.
// stdout/stderr of the library code are captured per command (memfd) and reported as events.
//
// Line protocol (tokens separated by single spaces; bytes in hex, "-" = empty item, "." = none):
//   N <id>                         new case (drops the previous Instance)
//   SV <n>  FL <n>  AD <0|1>       sigversion, flags, allow_disabled_opcodes
//   TX <string>                    Instance::parse_transaction(string, true)
//   TI <hex> <select>              Instance::parse_input_transaction
//   SC <hex>                       Instance::parse_script(bytes)
//   ST <items>                     initial stack  a,b,c
//   SS <hex>                       successor script (scriptPubKey executed after the script)
//   PV <string>                    Instance::parse_pretend_valid_expr
//   XD <leafhash|-> <annexhash|-|none> <weight|-> execdata overrides
//   TCE <control> <program> <script>   attach a TaprootCommitmentEnv to the instance
//   CF                             Instance::configure_tx_txin
//   SU                             Instance::setup_environment(flags)
//   S / R / C / CS / D             step / rewind / ContinueScript / step-until-done(with events) / dump
//   X <hextok>...                  Instance::eval(tokens)   (tokens hex-encoded text)
//   TCERUN <control> <program> <script>   stand-alone commitment iteration
//   PTX <hex-text>                 parse_tx
//   VA <hextok>...                 Value::parse_args(argv) + serialize        (btcc)
//   VS <hextok>                    Value(str): type / data / int
//   TF <hexline>                   fn_tf(line)  (the real `tf` command implementation)
//   SN <kind> <lo> <hi>            script-number sweeps (C18)
//   Q                              quit
#include <instance.h>
#include <functions.h>
#include <cstdio>
#include <cstdarg>
#include <cstring>
#include <string>
#include <vector>
#include <sstream>
#include <iostream>
#include <unistd.h>
#include <sys/mman.h>
#include <fcntl.h>

CTransactionRef parse_tx(const char* p);

static FILE* EV = nullptr;
static int capfd = -1;

static std::string hx(const std::vector<unsigned char>& v) { return v.empty() ? "-" : HexStr(v); }
static std::vector<unsigned char> unhx(const std::string& s) { return (s == "-" || s == ".") ? std::vector<unsigned char>() : ParseHex(s); }
static std::string unhxs(const std::string& s) { auto v = unhx(s); return std::string(v.begin(), v.end()); }
static std::string hxs(const std::string& s) { return s.empty() ? "-" : HexStr(std::vector<unsigned char>(s.begin(), s.end())); }

static std::string vecstr(const std::vector<std::vector<unsigned char>>& s) {
    if (s.empty()) return ".";
    std::string r;
    for (size_t i = 0; i < s.size(); ++i) { if (i) r += ","; r += hx(s[i]); }
    return r;
}
static std::vector<std::vector<unsigned char>> parsevec(const std::string& s) {
    std::vector<std::vector<unsigned char>> r;
    if (s == ".") return r;
    std::stringstream ss(s); std::string item;
    while (std::getline(ss, item, ',')) r.push_back(unhx(item));
    return r;
}

// ---- capture of the library's own log lines (signing / sighash) -------------------------------
static std::vector<std::string> g_sighashes;
static std::string g_signbuf;
static void sign_sink(const char* fmt...) {
    char buf[4096];
    va_list args; va_start(args, fmt); vsnprintf(buf, sizeof buf, fmt, args); va_end(args);
    g_signbuf += buf;
    size_t p;
    while ((p = g_signbuf.find('\n')) != std::string::npos) {
        std::string line = g_signbuf.substr(0, p);
        g_signbuf.erase(0, p + 1);
        size_t q;
        if ((q = line.find("  sighash     = ")) != std::string::npos) g_sighashes.push_back("e:" + line.substr(q + 16));
        else if ((q = line.find("- schnorr sighash = ")) != std::string::npos) g_sighashes.push_back("s:" + line.substr(q + 20));
        else if (line.find("- sig check succeeded") != std::string::npos) g_sighashes.push_back("m:1");
        else if (line.find("- sig check failed") != std::string::npos) g_sighashes.push_back("m:0");
    }
}

// ---- capture of stdout/stderr -------------------------------------------------------------------
static std::string drain_capture() {
    fflush(stdout); fflush(stderr);
    off_t end = lseek(capfd, 0, SEEK_CUR);
    std::string out;
    if (end > 0) {
        out.resize(end);
        ssize_t n = pread(capfd, &out[0], end, 0);
        if (n < 0) n = 0;
        out.resize(n);
        if (ftruncate(capfd, 0) != 0) {}
        lseek(capfd, 0, SEEK_SET);
    }
    return out;
}
static void emit_capture() {
    std::string out = drain_capture();
    if (!out.empty()) {
        if (out.size() > 200000) out.resize(200000);
        fprintf(EV, "O %s\n", hxs(out).c_str());
    }
}

struct Case {
    Instance* inst = nullptr;
    unsigned flags = STANDARD_SCRIPT_VERIFY_FLAGS;
    bool allow = false;
    std::string last_script;
    bool setup = false;
    bool tx_ok = true, ti_ok = true;   // btcdeb exits when --tx / --txin cannot be parsed
    ~Case() { delete inst; }
};

static std::string exc_class(const std::string& e) {
    if (e.empty()) return "-";
    return "x" + HexStr(std::vector<unsigned char>(e.begin(), e.end()));
}

static void emit_state(Case& c, const char* kind, int ret, const std::string& exc) {
    Instance& inst = *c.inst;
    InterpreterEnv* e = inst.env;
    for (auto& s : g_sighashes) fprintf(EV, "H %s\n", s.c_str());
    g_sighashes.clear();
    emit_capture();
    if (!e) { fprintf(EV, "%s %d noenv\n", kind, ret); fflush(EV); return; }
    if (!e->operational) {
        // the environment constructor bailed out early: its remaining members are not initialised
        fprintf(EV, "%s 0 %d - 0 0 0 0 0 0 0 0 0 0 0 -1 - %d - . .\n", kind, (int)*e->serror, (int)e->sigversion);
        fflush(EV); return;
    }
    std::string scr(e->script.begin(), e->script.end());
    if (scr != c.last_script) {
        c.last_script = scr;
        fprintf(EV, "P %s\n", hxs(scr).c_str());
    }
    size_t ff = e->vfExec.size();
    for (size_t i = 0; i < e->vfExec.size(); ++i) if (!e->vfExec.at(i)) { ff = i; break; }
    long pc = (long)(e->pc - e->script.begin());
    long cs = (long)(e->pbegincodehash - e->script.begin());
    int tcei = e->tce ? e->tce->m_i : -1;
    int opc = 0; memcpy(&opc, &e->opcode, sizeof(opc) < sizeof(e->opcode) ? sizeof(opc) : sizeof(e->opcode)); // may be uninitialised before the first op
    fprintf(EV, "%s %d %d %s %d %d %zu %zu %ld %ld %d %d %u %lld %d %d %s %d %s %s %s %u\n",
        kind, ret, (int)*e->serror, exc_class(exc).c_str(), e->nOpCount, e->done ? 1 : 0,
        e->vfExec.size(), ff, pc, cs, e->curr_op_seq, opc,
        (unsigned)e->execdata.m_codeseparator_pos, (long long)(e->execdata.m_validation_weight_left_init ? e->execdata.m_validation_weight_left : 0),
        e->is_p2sh ? 1 : 0, tcei,
        e->successor_script.size() ? HexStr(e->successor_script).c_str() : "-",
        (int)e->sigversion,
        e->execdata.m_tapleaf_hash_init ? HexStr(e->execdata.m_tapleaf_hash).c_str() : "-",
        vecstr(e->stack).c_str(), vecstr(e->altstack).c_str(), (unsigned)e->opcode_pos);
    fflush(EV);
}

static void tx_dump(const CTransaction& tx) {
    CDataStream ssw(SER_NETWORK, PROTOCOL_VERSION); ssw << tx;
    CDataStream ssn(SER_NETWORK, PROTOCOL_VERSION | SERIALIZE_TRANSACTION_NO_WITNESS); ssn << tx;
    std::string ins, outs;
    for (size_t i = 0; i < tx.vin.size(); ++i) {
        auto& in = tx.vin[i];
        if (i) ins += ";";
        ins += HexStr(in.prevout.hash) + ":" + std::to_string(in.prevout.n) + ":" + hx(std::vector<unsigned char>(in.scriptSig.begin(), in.scriptSig.end())) + ":" + std::to_string(in.nSequence) + ":" + vecstr(in.scriptWitness.stack);
    }
    for (size_t i = 0; i < tx.vout.size(); ++i) {
        auto& o = tx.vout[i];
        if (i) outs += ";";
        outs += std::to_string(o.nValue) + ":" + hx(std::vector<unsigned char>(o.scriptPubKey.begin(), o.scriptPubKey.end()));
    }
    fprintf(EV, "TXOK %d %u %zu %zu %d %s %s %s %s %s %s\n", tx.nVersion, tx.nLockTime, tx.vin.size(), tx.vout.size(), tx.HasWitness() ? 1 : 0,
        HexStr(tx.GetHash()).c_str(), HexStr(tx.GetWitnessHash()).c_str(),
        HexStr(ssw).c_str(), HexStr(ssn).c_str(), ins.empty() ? "." : ins.c_str(), outs.empty() ? "." : outs.c_str());
}

// ---- C18 sweeps: arithmetic definition of the codec, sharing no code with script.h --------------
static inline int64_t ref_decode(const unsigned char* b, size_t n) {
    if (n == 0) return 0;
    uint64_t mag = 0;
    for (size_t i = 0; i < n; ++i) mag += (uint64_t)(i == n - 1 ? (b[i] & 0x7f) : b[i]) << (8 * i);
    return (b[n - 1] & 0x80) ? -(int64_t)mag : (int64_t)mag;
}
static inline bool ref_minimal(const unsigned char* b, size_t n) {
    // minimal iff it is the shortest sign-magnitude little-endian string with that value,
    // and zero is the empty string
    if (n == 0) return true;
    if (b[n - 1] & 0x7f) return true;
    // top byte is 0x00 or 0x80: needed only if the byte below has its high bit set
    if (n == 1) return false;
    return (b[n - 2] & 0x80) != 0;
}
static inline size_t ref_encode(int64_t v, unsigned char* out) {
    if (v == 0) return 0;
    bool neg = v < 0;
    uint64_t mag = neg ? (uint64_t)0 - (uint64_t)v : (uint64_t)v;
    size_t n = 0;
    while (mag) { out[n++] = mag & 0xff; mag >>= 8; }
    if (out[n - 1] & 0x80) out[n++] = neg ? 0x80 : 0x00;
    else if (neg) out[n - 1] |= 0x80;
    return n;
}

struct SnStats { unsigned long long n = 0, bad = 0, minimal = 0, thrown = 0; std::vector<std::string> wit; };
static void sn_bad(SnStats& st, const char* what, const unsigned char* b, size_t n, long long extra) {
    st.bad++;
    if (st.wit.size() < 5) {
        char buf[200]; snprintf(buf, sizeof buf, "%s:%s:%lld", what, n ? HexStr(Span<const unsigned char>(b, n)).c_str() : "-", extra);
        st.wit.push_back(buf);
    }
}
static void sn_check_string(SnStats& st, const unsigned char* b, size_t n, size_t maxsize) {
    std::vector<unsigned char> v(b, b + n);
    st.n++;
    int64_t want = ref_decode(b, n);
    bool wantmin = ref_minimal(b, n);
    if (wantmin) st.minimal++;
    // lenient decode
    try {
        CScriptNum a(v, false, maxsize);
        if (a.GetInt64() != want) sn_bad(st, "decode", b, n, a.GetInt64());
        if (n <= 4 || (want <= INT32_MAX && want >= INT32_MIN)) {
            int gi = a.getint();
            int wi = want > INT32_MAX ? INT32_MAX : want < INT32_MIN ? INT32_MIN : (int)want;
            if (gi != wi) sn_bad(st, "getint", b, n, gi);
        }
    } catch (const scriptnum_error&) { sn_bad(st, "lenient-throws", b, n, 0); }
    // strict decode
    bool threw = false;
    try { CScriptNum s(v, true, maxsize); if (s.GetInt64() != want) sn_bad(st, "decode-strict", b, n, s.GetInt64()); }
    catch (const scriptnum_error&) { threw = true; st.thrown++; }
    if (threw == wantmin) sn_bad(st, "minimality", b, n, threw);
    // re-encode
    std::vector<unsigned char> re = CScriptNum::serialize(want);
    bool same = (re == v);
    if (same != wantmin) sn_bad(st, "reencode", b, n, same);
    if (CScriptNum(want).getvch() != re) sn_bad(st, "getvch", b, n, 0);
    // over-long strings must be refused
    if (n == maxsize) {
        std::vector<unsigned char> w(v); w.push_back(0);
        try { CScriptNum o(w, false, maxsize); sn_bad(st, "overlong-accepted", b, n, 0); } catch (const scriptnum_error&) {}
    }
}
static void sn_check_int(SnStats& st, int64_t v) {
    st.n++;
    unsigned char buf[10]; size_t n = ref_encode(v, buf);
    std::vector<unsigned char> enc = CScriptNum::serialize(v);
    if (enc.size() != n || (n && memcmp(enc.data(), buf, n))) { sn_bad(st, "encode", buf, n, v); return; }
    if (!ref_minimal(buf, n)) sn_bad(st, "encode-nonminimal", buf, n, v);
    if (ref_decode(buf, n) != v) sn_bad(st, "ref-roundtrip", buf, n, v);
    try {
        CScriptNum d(enc, true, 9);
        if (d.GetInt64() != v) sn_bad(st, "roundtrip", buf, n, d.GetInt64());
    } catch (const scriptnum_error&) { sn_bad(st, "roundtrip-throws", buf, n, v); }
    if (n <= 4) st.minimal++;
}

static void run_sn(const std::string& kind, unsigned long long lo, unsigned long long hi) {
    SnStats st;
    if (kind == "str") {          // index space: all strings of length len packed little-endian; args: lo hi are indices, len encoded in top
        // lo/hi carry len in bits 40..43
        size_t len = (lo >> 40) & 0xf; lo &= 0xffffffffffULL; hi &= 0xffffffffffULL;
        unsigned char b[8];
        for (unsigned long long i = lo; i < hi; ++i) {
            for (size_t k = 0; k < len; ++k) b[k] = (i >> (8 * k)) & 0xff;
            sn_check_string(st, b, len, 4);
        }
    } else if (kind == "str5") {  // pseudo-random stratified 5-byte strings, max size 5
        unsigned long long x = lo * 0x9E3779B97F4A7C15ULL + 1;
        for (unsigned long long i = 0; i < hi; ++i) {
            x ^= x << 13; x ^= x >> 7; x ^= x << 17;
            unsigned char b[5];
            for (int k = 0; k < 5; ++k) b[k] = (x >> (8 * k)) & 0xff;
            // stratify the top two bytes over boundary classes
            static const unsigned char tops[] = {0x00, 0x80, 0x01, 0x7f, 0x81, 0xff};
            if (i % 3 == 0) b[4] = tops[(i / 3) % 6];
            if (i % 5 == 0) b[3] = tops[(i / 5) % 6];
            sn_check_string(st, b, 5, 5);
            if (i % 7 == 0) { sn_check_string(st, b, 4, 5); sn_check_string(st, b, 3, 5); }
        }
    } else if (kind == "int") {   // integers lo-2^31 .. hi-2^31 (offsets so the args stay unsigned)
        for (unsigned long long i = lo; i < hi; ++i) sn_check_int(st, (int64_t)i - (1LL << 31));
    } else if (kind == "int64") { // dense sample of the full int64 range, seeded by lo, hi samples
        unsigned long long x = lo * 0x9E3779B97F4A7C15ULL + 7;
        for (unsigned long long i = 0; i < hi; ++i) {
            x ^= x << 13; x ^= x >> 7; x ^= x << 17;
            int sh = (x >> 58) & 63;
            int64_t v = (int64_t)(x >> 1) >> sh;
            if (i & 1) v = -v;
            sn_check_int(st, v);
            // neighbours of every power of 256 / 128
            if (i < 64 * 8) { int64_t p = 1LL << (i % 63); int64_t d = (int64_t)((i / 63) % 5) - 2; sn_check_int(st, p + d); sn_check_int(st, -(p + d)); }
        }
        sn_check_int(st, INT64_MAX); sn_check_int(st, -INT64_MAX); sn_check_int(st, 0);
    }
    std::string w;
    for (auto& s : st.wit) { w += " "; w += s; }
    fprintf(EV, "SN %s %llu %llu %llu %llu%s\n", kind.c_str(), st.n, st.bad, st.minimal, st.thrown, w.c_str());
    fflush(EV);
}

int main(int argc, char** argv) {
    EV = fdopen(3, "w");
    if (!EV) { fprintf(stderr, "vharness: fd 3 must be open for events\n"); return 2; }
    capfd = memfd_create("vh-cap", 0);
    if (capfd < 0) { perror("memfd_create"); return 2; }
    if (!(argc > 1 && !strcmp(argv[1], "--nocap"))) {
        // stdout (fd 1) and the C stream `stderr` go to the capture file; fd 2 itself is left alone because the
        // sanitizer runtimes write their reports to it directly
        dup2(capfd, 1);
        FILE* cap_err = fdopen(dup(capfd), "w");
        if (cap_err) { setvbuf(cap_err, nullptr, _IONBF, 0); stderr = cap_err; }
    }
    setvbuf(stdout, nullptr, _IOFBF, 1 << 16);
    btc_logf = btc_logf_dummy;
    btc_sign_logf = sign_sink;
    VALUE_WARN = false;

    Case* c = new Case();
    std::string line;
    while (std::getline(std::cin, line)) {
        if (line.empty()) continue;
        std::vector<std::string> t;
        { std::stringstream ss(line); std::string tok; while (std::getline(ss, tok, ' ')) t.push_back(tok); }
        const std::string& cmd = t[0];
        try {
            if (cmd == "Q") break;
            else if (cmd == "N") {
                delete c; c = new Case(); c->inst = new Instance();
                g_sighashes.clear(); g_signbuf.clear();
                drain_capture();
                fprintf(EV, "B %s\n", t.size() > 1 ? t[1].c_str() : "?"); fflush(EV);
            }
            else if (cmd == "SV") c->inst->sigver = (SigVersion)atoi(t[1].c_str());
            else if (cmd == "FL") c->flags = (unsigned)strtoul(t[1].c_str(), nullptr, 10);
            else if (cmd == "AD") c->allow = atoi(t[1].c_str()) != 0;
            else if (cmd == "TX") {
                std::string a = unhxs(t[1]);
                bool ok = false; std::string ex;
                try { ok = c->inst->parse_transaction(a.c_str(), true); } catch (const std::exception& e) { ex = e.what(); }
                c->tx_ok = ok;
                emit_capture();
                std::string am;
                for (auto v : c->inst->amounts) { if (!am.empty()) am += ","; am += std::to_string(v); }
                fprintf(EV, "TX %d %s %s %d\n", ok ? 1 : 0, exc_class(ex).c_str(), am.empty() ? "." : am.c_str(), (int)c->inst->sigver);
                if (ok && c->inst->tx) tx_dump(*c->inst->tx);
                fflush(EV);
            }
            else if (cmd == "TI") {
                std::string a = unhxs(t[1]);
                int sel = t.size() > 2 ? atoi(t[2].c_str()) : -1;
                bool ok = false; std::string ex;
                try { ok = c->inst->parse_input_transaction(a.c_str(), sel); } catch (const std::exception& e) { ex = e.what(); }
                c->ti_ok = ok;
                emit_capture();
                fprintf(EV, "TI %d %s %lld %lld\n", ok ? 1 : 0, exc_class(ex).c_str(), (long long)c->inst->txin_index, (long long)c->inst->txin_vout_index);
                fflush(EV);
            }
            else if (cmd == "SC") {
                bool ok = c->inst->parse_script(unhx(t[1]));
                fprintf(EV, "SC %d\n", ok ? 1 : 0); fflush(EV);
            }
            else if (cmd == "SS") { auto b = unhx(t[1]); c->inst->successor_script = CScript(b.begin(), b.end()); }
            else if (cmd == "ST") { for (auto& it : parsevec(t[1])) c->inst->stack.push_back(it); }
            else if (cmd == "PV") {
                std::string a = unhxs(t[1]);
                bool ok = c->inst->parse_pretend_valid_expr(a.c_str());
                emit_capture();
                std::string m;
                for (auto& kv : c->inst->pretend_valid_map) for (auto& pk : kv.second) { if (!m.empty()) m += ","; m += hx(kv.first) + ":" + hx(pk); }
                fprintf(EV, "PV %d %s\n", ok ? 1 : 0, m.empty() ? "." : m.c_str()); fflush(EV);
            }
            else if (cmd == "XD") {
                auto& xd = c->inst->execdata;
                if (t[1] != "-") { xd.m_tapleaf_hash = uint256(unhx(t[1])); xd.m_tapleaf_hash_init = true; }
                if (t[2] == "none") { xd.m_annex_present = false; xd.m_annex_init = true; }
                else if (t[2] != "-") { xd.m_annex_hash = uint256(unhx(t[2])); xd.m_annex_present = true; xd.m_annex_init = true; }
                if (t[3] != "-") { xd.m_validation_weight_left = atoll(t[3].c_str()); xd.m_validation_weight_left_init = true; }
            }
            else if (cmd == "TCE") {
                auto scr = unhx(t[3]);
                c->inst->tce = new TaprootCommitmentEnv(unhx(t[1]), unhx(t[2]), CScript(scr.begin(), scr.end()), &c->inst->execdata.m_tapleaf_hash);
                c->inst->execdata.m_tapleaf_hash_init = true;
            }
            else if ((cmd == "CF" || cmd == "SU") && !(c->tx_ok && c->ti_ok)) {
                fprintf(EV, "NOTX %s\n", cmd.c_str()); fflush(EV);   // the real tool has already exited with status 1
            }
            else if (cmd == "CF") {
                bool ok = false; std::string ex;
                try { ok = c->inst->configure_tx_txin(); } catch (const std::exception& e) { ex = e.what(); }
                emit_capture();
                Instance& I = *c->inst;
                fprintf(EV, "CF %d %s %d %s %s %s %lld %d %d\n", ok ? 1 : 0, exc_class(ex).c_str(), (int)I.sigver,
                    hx(std::vector<unsigned char>(I.script.begin(), I.script.end())).c_str(),
                    hx(std::vector<unsigned char>(I.successor_script.begin(), I.successor_script.end())).c_str(),
                    vecstr(I.stack).c_str(), (long long)(I.txin_index >= 0 && (size_t)I.txin_index < I.amounts.size() ? I.amounts[I.txin_index] : -1),
                    I.has_preamble ? 1 : 0, I.tce ? I.tce->m_path_len : -1);
                fflush(EV);
            }
            else if (cmd == "SU") {
                bool ok = c->inst->setup_environment(c->flags);
                c->inst->env->allow_disabled_opcodes = c->allow;
                c->setup = ok;
                emit_state(*c, "U", ok ? 1 : 0, "");
            }
            else if ((cmd == "S" || cmd == "CS" || cmd == "CSH" || cmd == "R" || cmd == "C" || cmd == "X" || cmd == "D") && !c->setup) {
                // btcdeb exits when setup_environment() fails: nothing may be executed on such an environment
                fprintf(EV, "NOSETUP %s\n", cmd.c_str()); fflush(EV);
            }
            else if (cmd == "S") {
                bool r = c->inst->step();
                emit_state(*c, "S", r ? 1 : 0, c->inst->exception_string);
            }
            else if (cmd == "CS") {   // step until done or failure, one event per step
                int guard = 0;
                while (!c->inst->env->done && guard++ < 200000) {
                    bool r = c->inst->step();
                    emit_state(*c, "S", r ? 1 : 0, c->inst->exception_string);
                    if (!r) break;
                }
                fprintf(EV, "CSEND\n"); fflush(EV);
            }
            else if (cmd == "CSH") {   // like CS, but every step is taken, taken back and taken again ("hovering"); the event is the re-done step
                int guard = 0;
                while (!c->inst->env->done && guard++ < 200000) {
                    bool r = c->inst->step();
                    if (r && !c->inst->env->done && c->inst->rewind()) {
                        g_sighashes.clear(); drain_capture();      // (digests and output of the step that was taken back)
                        fprintf(EV, "HV\n"); fflush(EV);
                        r = c->inst->step();
                    }
                    emit_state(*c, "S", r ? 1 : 0, c->inst->exception_string);
                    if (!r) break;
                }
                fprintf(EV, "CSEND\n"); fflush(EV);
            }
            else if (cmd == "R") {
                bool r = c->inst->rewind();
                emit_state(*c, "R", r ? 1 : 0, "");
            }
            else if (cmd == "C") {    // what non-interactive btcdeb does: ContinueScript without a handler
                bool r = false; std::string ex;
                try { r = ContinueScript(*c->inst->env); } catch (const std::exception& e) { ex = std::string("UNCAUGHT:") + e.what(); }
                emit_state(*c, "C", r ? 1 : 0, ex);
            }
            else if (cmd == "D") emit_state(*c, "D", 1, "");
            else if (cmd == "X") {
                std::vector<std::string> toks; std::vector<char*> av;
                for (size_t i = 1; i < t.size(); ++i) toks.push_back(unhxs(t[i]));
                for (auto& s : toks) av.push_back(const_cast<char*>(s.c_str()));
                bool r = false; std::string ex;
                try { r = c->inst->eval(av.size(), av.data()); } catch (const std::exception& e) { ex = std::string("UNCAUGHT:") + e.what(); }
                emit_state(*c, "X", r ? 1 : 0, ex);
            }
            else if (cmd == "TCERUN") {
                uint256 leaf;
                auto scr = unhx(t[3]);
                TaprootCommitmentEnv tce(unhx(t[1]), unhx(t[2]), CScript(scr.begin(), scr.end()), &leaf);
                fprintf(EV, "TCE0 %d %s %s %zu\n", tce.m_path_len, HexStr(leaf).c_str(), HexStr(tce.m_k).c_str(), tce.Description().size());
                int n = 0; const char* fin = "loop";
                while (n < 300) {
                    auto st = tce.Iterate(); ++n;
                    const char* nm = st == TaprootCommitmentEnv::State::Processing ? "P" : st == TaprootCommitmentEnv::State::Done ? "D" : st == TaprootCommitmentEnv::State::Failed ? "F" : "T";
                    fprintf(EV, "TCEI %s %d %s\n", nm, tce.m_i, HexStr(tce.m_k).c_str());
                    if (st == TaprootCommitmentEnv::State::Done || st == TaprootCommitmentEnv::State::Failed) { fin = nm; break; }
                }
                emit_capture();
                fprintf(EV, "TCEEND %s %d\n", fin, n); fflush(EV);
            }
            else if (cmd == "PTX") {
                std::string a = unhxs(t[1]);
                CTransactionRef tx; std::string ex;
                try { tx = parse_tx(a.c_str()); } catch (const std::exception& e) { ex = e.what(); }
                emit_capture();
                if (tx) tx_dump(*tx); else fprintf(EV, "TXFAIL %s\n", exc_class(ex).c_str());
                fflush(EV);
            }
            else if (cmd == "VA") {
                std::vector<std::string> toks; std::vector<const char*> av;
                for (size_t i = 1; i < t.size(); ++i) toks.push_back(unhxs(t[i]));
                for (auto& s : toks) av.push_back(s.c_str());
                std::string res, ex;
                try { res = Value::serialize(Value::parse_args(av)); } catch (const std::exception& e) { ex = e.what(); }
                emit_capture();
                fprintf(EV, "VA %s %s\n", res.empty() ? "-" : res.c_str(), exc_class(ex).c_str()); fflush(EV);
            }
            else if (cmd == "VS") {
                std::string a = unhxs(t[1]); std::string ex;
                int type = -1; long long iv = 0; std::string data = "-", hexs = "-";
                try {
                    Value v(a.c_str());
                    type = (int)v.type;
                    if (type == Value::T_INT) iv = v.int64;
                    hexs = v.hex_str(); if (hexs.empty()) hexs = "-";
                    data = hx(Value(v).data_value());
                    if (type != Value::T_STRING) { try { iv = v.int_value(); } catch (const std::exception&) { iv = 0; } }
                } catch (const std::exception& e) { ex = e.what(); }
                emit_capture();
                fprintf(EV, "VS %d %lld %s %s %s\n", type, iv, data.c_str(), hexs.c_str(), exc_class(ex).c_str()); fflush(EV);
            }
            else if (cmd == "TF") {
                std::string a = unhxs(t[1]);
                drain_capture();
                int rv = fn_tf(a.c_str());
                std::string out = drain_capture();
                fprintf(EV, "TF %d %s\n", rv, hxs(out).c_str()); fflush(EV);
            }
            else if (cmd == "SN") run_sn(t[1], strtoull(t[2].c_str(), nullptr, 10), strtoull(t[3].c_str(), nullptr, 10));
            else { fprintf(EV, "ERR unknown-command %s\n", cmd.c_str()); fflush(EV); }
        } catch (const std::exception& e) {
            emit_capture();
            fprintf(EV, "EXC %s %s\n", cmd.c_str(), exc_class(e.what()).c_str()); fflush(EV);
        }
    }
    delete c;
    fflush(EV);
    return 0;
}
