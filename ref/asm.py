"""The btcc token grammar -> bytes (specification of C07), written from the documented behaviour:
opcode name (with or without OP_, OP_xNN escapes) -> opcode byte; decimal integer -> minimal number push;
hex literal (optionally 0x-prefixed, even length) -> minimal-form push of exactly those bytes;
[ ... ] -> push of the compiled body.  Digit-only tokens are decimal."""
import re
from ref.script import OP, push_num, push_data, decode_all, check_minimal_push, num_encode

NAMES = dict(OP)
NAMES['FALSE'] = OP['0']
NAMES['TRUE'] = OP['1']
# the historical names of the two soft-forked NOPs (aliases in Bitcoin's opcode table, like TRUE / FALSE)
NAMES['NOP2'] = OP['CHECKLOCKTIMEVERIFY']
NAMES['NOP3'] = OP['CHECKSEQUENCEVERIFY']
DEC = re.compile(r'^-?(0|[1-9][0-9]*)$')
HEX = re.compile(r'^(0x)?([0-9a-fA-F]{2})+$')
WS = ' \t\n\r'


class AsmError(Exception):
    pass


def split_body(s):
    """split the inside of a bracket into tokens: whitespace separated, nested brackets kept whole,
    '#' starts a comment to the end of the line"""
    toks = []
    i = 0
    n = len(s)
    cur = ''
    while i < n:
        ch = s[i]
        if ch == '#':
            if cur:
                toks.append(cur)
                cur = ''
            while i < n and s[i] not in '\n\r':
                i += 1
            continue
        if ch == '[' and not cur:
            depth = 0
            j = i
            while j < n:
                if s[j] == '#':
                    # a comment runs to the end of the line: brackets in it are text, not structure
                    while j < n and s[j] not in '\n\r':
                        j += 1
                    continue
                if s[j] == '[':
                    depth += 1
                elif s[j] == ']':
                    depth -= 1
                    if depth == 0:
                        break
                j += 1
            if j >= n:
                raise AsmError('unclosed bracket')
            toks.append(s[i:j + 1])
            i = j + 1
            continue
        if ch in WS:
            if cur:
                toks.append(cur)
                cur = ''
            i += 1
            continue
        if ch == '[' and cur:
            # a bracket that opens in the middle of a token belongs to it - fun([sub script]) -: taken whole, blanks included
            depth = 0
            j = i
            while j < n:
                if s[j] == '[':
                    depth += 1
                elif s[j] == ']':
                    depth -= 1
                    if depth == 0:
                        break
                j += 1
            if j >= n:
                raise AsmError('unclosed bracket')
            cur += s[i:j + 1]
            i = j + 1
            continue
        cur += ch
        i += 1
    if cur:
        toks.append(cur)
    return toks


def classify(tok):
    """-> ('int', n) | ('op', byte) | ('data', bytes) | ('script', bytes) | None (outside the grammar)"""
    if tok == '0x':
        return ('data', b'')
    if len(tok) > 1 and tok[0] == '[' and tok[-1] == ']':
        return ('script', compile_tokens(split_body(tok[1:-1])))
    if DEC.match(tok) and tok != '-0':
        n = int(tok)
        if -2 ** 63 < n < 2 ** 63:
            return ('int', n)
        return None
    name = tok[3:] if tok.startswith('OP_') else tok
    if name in NAMES:
        return ('op', NAMES[name])
    if len(name) == 3 and name[0] == 'x' and re.match(r'^[0-9a-fA-F]{2}$', name[1:]):
        return ('op', int(name[1:], 16))
    m = HEX.match(tok)
    if m:
        h = tok[2:] if tok.startswith('0x') else tok
        return ('data', bytes.fromhex(h))
    return None


def emit(c):
    kind, v = c
    if kind == 'int':
        return push_num(v)
    if kind == 'op':
        return bytes([v])
    return push_data(v)


def compile_tokens(tokens):
    out = b''
    for t in tokens:
        c = classify(t)
        if c is None:
            raise AsmError('token outside the grammar: %r' % t)
        out += emit(c)
    return out


def op_sequence(tokens):
    """the operation sequence the tokens denote: list of ('op', byte) / ('push', bytes)"""
    seq = []
    for t in tokens:
        kind, v = classify(t)
        if kind == 'int':
            seq.append(('push', num_encode(v)))
        elif kind == 'op':
            seq.append(('op', v) if v > 0x60 or v == 0x50 else ('push', b'' if v == 0 else num_encode(v - 0x50)))
        else:
            seq.append(('push', v))
    return seq


def decode_ops(script):
    """inverse: decode bytes into the same kind of operation sequence; None if undecodable"""
    ops = decode_all(script)
    if ops is None:
        return None
    seq = []
    for o, d in ops:
        if o <= 0x4e:
            seq.append(('push', d))
        elif o == 0x4f or 0x51 <= o <= 0x60:
            seq.append(('push', num_encode(o - 0x50)))
        else:
            seq.append(('op', o))
    return seq
