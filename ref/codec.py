"""base58check, bech32/bech32m, RIPEMD-160 (pure Python fallback), compact size, Jacobi symbol, fixed-point amounts."""
import hashlib, struct

B58 = '123456789ABCDEFGHJKLMNPQRSTUVWXYZabcdefghijkmnopqrstuvwxyz'


def sha256(b):
    return hashlib.sha256(b).digest()


def b58encode(b):
    n = int.from_bytes(b, 'big')
    s = ''
    while n:
        n, r = divmod(n, 58)
        s = B58[r] + s
    pad = len(b) - len(b.lstrip(b'\x00'))
    return '1' * pad + s


def b58decode(s):
    n = 0
    for c in s:
        i = B58.find(c)
        if i < 0:
            return None
        n = n * 58 + i
    pad = len(s) - len(s.lstrip('1'))
    body = n.to_bytes((n.bit_length() + 7) // 8, 'big') if n else b''
    return b'\x00' * pad + body


def b58check_encode(payload):
    return b58encode(payload + sha256(sha256(payload))[:4])


def b58check_decode(s):
    raw = b58decode(s)
    if raw is None or len(raw) < 4:
        return None
    if sha256(sha256(raw[:-4]))[:4] != raw[-4:]:
        return None
    return raw[:-4]


CHARSET = 'qpzry9x8gf2tvdw0s3jn54khce6mua7l'
BECH32_CONST = 1
BECH32M_CONST = 0x2bc830a3


def _polymod(values):
    gen = [0x3b6a57b2, 0x26508e6d, 0x1ea119fa, 0x3d4233dd, 0x2a1462b3]
    chk = 1
    for v in values:
        b = chk >> 25
        chk = (chk & 0x1ffffff) << 5 ^ v
        for i in range(5):
            chk ^= gen[i] if ((b >> i) & 1) else 0
    return chk


def _hrp_expand(hrp):
    return [ord(x) >> 5 for x in hrp] + [0] + [ord(x) & 31 for x in hrp]


def bech32_encode(hrp, data5, const):
    values = _hrp_expand(hrp) + list(data5)
    pm = _polymod(values + [0] * 6) ^ const
    chk = [(pm >> 5 * (5 - i)) & 31 for i in range(6)]
    return hrp + '1' + ''.join(CHARSET[d] for d in list(data5) + chk)


def bech32_decode(s):
    """-> (hrp, data5 (without checksum), 'bech32'|'bech32m') or None"""
    if any(ord(x) < 33 or ord(x) > 126 for x in s):
        return None
    if s.lower() != s and s.upper() != s:
        return None
    s = s.lower()
    pos = s.rfind('1')
    if pos < 1 or pos + 7 > len(s) or len(s) > 90:
        return None
    if not all(x in CHARSET for x in s[pos + 1:]):
        return None
    hrp = s[:pos]
    data = [CHARSET.find(x) for x in s[pos + 1:]]
    c = _polymod(_hrp_expand(hrp) + data)
    if c == BECH32_CONST:
        return hrp, data[:-6], 'bech32'
    if c == BECH32M_CONST:
        return hrp, data[:-6], 'bech32m'
    return None


def convertbits(data, frombits, tobits, pad=True):
    acc = 0
    bits = 0
    ret = []
    maxv = (1 << tobits) - 1
    for value in data:
        if value < 0 or (value >> frombits):
            return None
        acc = (acc << frombits) | value
        bits += frombits
        while bits >= tobits:
            bits -= tobits
            ret.append((acc >> bits) & maxv)
    if pad:
        if bits:
            ret.append((acc << (tobits - bits)) & maxv)
    elif bits >= frombits or ((acc << (tobits - bits)) & maxv):
        return None
    return ret


def segwit_addr_encode(hrp, witver, prog):
    const = BECH32_CONST if witver == 0 else BECH32M_CONST
    return bech32_encode(hrp, [witver] + convertbits(prog, 8, 5), const)


def segwit_addr_decode(addr):
    r = bech32_decode(addr)
    if r is None:
        return None
    hrp, data, enc = r
    if not data:
        return None
    prog = convertbits(data[1:], 5, 8, False)
    if prog is None:
        return None
    return hrp, data[0], bytes(prog), enc


def compact_size(n):
    if n < 253:
        return bytes([n])
    if n <= 0xffff:
        return b'\xfd' + struct.pack('<H', n)
    if n <= 0xffffffff:
        return b'\xfe' + struct.pack('<I', n)
    return b'\xff' + struct.pack('<Q', n)


def jacobi(a, n):
    """Jacobi symbol (a/n) for odd n > 0"""
    assert n > 0 and n & 1
    a %= n
    result = 1
    while a:
        while a % 2 == 0:
            a //= 2
            if n % 8 in (3, 5):
                result = -result
        a, n = n, a
        if a % 4 == 3 and n % 4 == 3:
            result = -result
        a %= n
    return result if n == 1 else 0


# ---- RIPEMD-160, pure Python (used only when hashlib lacks it) ----------------------------------
def _rol(x, n):
    return ((x << n) | (x >> (32 - n))) & 0xffffffff


_R1 = [0, 1, 2, 3, 4, 5, 6, 7, 8, 9, 10, 11, 12, 13, 14, 15, 7, 4, 13, 1, 10, 6, 15, 3, 12, 0, 9, 5, 2, 14, 11, 8, 3, 10, 14, 4, 9, 15, 8, 1, 2, 7, 0, 6, 13, 11, 5, 12,
       1, 9, 11, 10, 0, 8, 12, 4, 13, 3, 7, 15, 14, 5, 6, 2, 4, 0, 5, 9, 7, 12, 2, 10, 14, 1, 3, 8, 11, 6, 15, 13]
_R2 = [5, 14, 7, 0, 9, 2, 11, 4, 13, 6, 15, 8, 1, 10, 3, 12, 6, 11, 3, 7, 0, 13, 5, 10, 14, 15, 8, 12, 4, 9, 1, 2, 15, 5, 1, 3, 7, 14, 6, 9, 11, 8, 12, 2, 10, 0, 4, 13,
       8, 6, 4, 1, 3, 11, 15, 0, 5, 12, 2, 13, 9, 7, 10, 14, 12, 15, 10, 4, 1, 5, 8, 7, 6, 2, 13, 14, 0, 3, 9, 11]
_S1 = [11, 14, 15, 12, 5, 8, 7, 9, 11, 13, 14, 15, 6, 7, 9, 8, 7, 6, 8, 13, 11, 9, 7, 15, 7, 12, 15, 9, 11, 7, 13, 12, 11, 13, 6, 7, 14, 9, 13, 15, 14, 8, 13, 6, 5, 12, 7, 5,
       11, 12, 14, 15, 14, 15, 9, 8, 9, 14, 5, 6, 8, 6, 5, 12, 9, 15, 5, 11, 6, 8, 13, 12, 5, 12, 13, 14, 11, 8, 5, 6]
_S2 = [8, 9, 9, 11, 13, 15, 15, 5, 7, 7, 8, 11, 14, 14, 12, 6, 9, 13, 15, 7, 12, 8, 9, 11, 7, 7, 12, 7, 6, 15, 13, 11, 9, 7, 15, 11, 8, 6, 6, 14, 12, 13, 5, 14, 13, 13, 7, 5,
       15, 5, 8, 11, 14, 14, 6, 14, 6, 9, 12, 9, 12, 5, 15, 8, 8, 5, 12, 9, 12, 5, 14, 6, 8, 13, 6, 5, 15, 13, 11, 11]
_K1 = [0x00000000, 0x5A827999, 0x6ED9EBA1, 0x8F1BBCDC, 0xA953FD4E]
_K2 = [0x50A28BE6, 0x5C4DD124, 0x6D703EF3, 0x7A6D76E9, 0x00000000]


def _f(j, x, y, z):
    if j < 16:
        return x ^ y ^ z
    if j < 32:
        return (x & y) | (~x & 0xffffffff & z)
    if j < 48:
        return (x | (~y & 0xffffffff)) ^ z
    if j < 64:
        return (x & z) | (y & ~z & 0xffffffff)
    return x ^ (y | (~z & 0xffffffff))


def ripemd160_py(msg):
    h = [0x67452301, 0xEFCDAB89, 0x98BADCFE, 0x10325476, 0xC3D2E1F0]
    ml = len(msg)
    msg = msg + b'\x80' + b'\x00' * ((55 - ml) % 64) + struct.pack('<Q', ml * 8)
    for off in range(0, len(msg), 64):
        X = struct.unpack('<16I', msg[off:off + 64])
        a, b, c, d, e = h
        a2, b2, c2, d2, e2 = h
        for j in range(80):
            t = (_rol((a + _f(j, b, c, d) + X[_R1[j]] + _K1[j // 16]) & 0xffffffff, _S1[j]) + e) & 0xffffffff
            a, e, d, c, b = e, d, _rol(c, 10), b, t
            t = (_rol((a2 + _f(79 - j, b2, c2, d2) + X[_R2[j]] + _K2[j // 16]) & 0xffffffff, _S2[j]) + e2) & 0xffffffff
            a2, e2, d2, c2, b2 = e2, d2, _rol(c2, 10), b2, t
        t = (h[1] + c + d2) & 0xffffffff
        h[1] = (h[2] + d + e2) & 0xffffffff
        h[2] = (h[3] + e + a2) & 0xffffffff
        h[3] = (h[4] + a + b2) & 0xffffffff
        h[4] = (h[0] + b + c2) & 0xffffffff
        h[0] = t
    return struct.pack('<5I', *h)


def ripemd160(b):
    try:
        return hashlib.new('ripemd160', b).digest()
    except ValueError:
        return ripemd160_py(b)
