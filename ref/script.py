"""Reference Bitcoin Script interpreter (step-wise), written from the consensus rules
(BIP16/62/65/66/68/112/141/143/146/147/341/342) -- not from /repo.

Interp  : one script execution context (what consensus calls EvalScript), advanced one op at a time.
Session : the sequence of contexts a debugger session walks through (optional taproot commitment
          phase, scriptSig -> scriptPubKey -> P2SH redeem script), with consensus rules at each seam.
"""
import hashlib

MAX_SCRIPT_ELEMENT_SIZE = 520
MAX_OPS_PER_SCRIPT = 201
MAX_PUBKEYS_PER_MULTISIG = 20
MAX_SCRIPT_SIZE = 10000
MAX_STACK_SIZE = 1000
VALIDATION_WEIGHT_PER_SIGOP_PASSED = 50
VALIDATION_WEIGHT_OFFSET = 50

OP = {}
for _n, _v in [("0", 0), ("PUSHDATA1", 0x4c), ("PUSHDATA2", 0x4d), ("PUSHDATA4", 0x4e), ("1NEGATE", 0x4f), ("RESERVED", 0x50)]:
    OP[_n] = _v
for _i in range(1, 17):
    OP[str(_i)] = 0x50 + _i
_names = ["NOP", "VER", "IF", "NOTIF", "VERIF", "VERNOTIF", "ELSE", "ENDIF", "VERIFY", "RETURN",
          "TOALTSTACK", "FROMALTSTACK", "2DROP", "2DUP", "3DUP", "2OVER", "2ROT", "2SWAP", "IFDUP", "DEPTH", "DROP", "DUP", "NIP", "OVER", "PICK", "ROLL", "ROT", "SWAP", "TUCK",
          "CAT", "SUBSTR", "LEFT", "RIGHT", "SIZE", "INVERT", "AND", "OR", "XOR", "EQUAL", "EQUALVERIFY", "RESERVED1", "RESERVED2",
          "1ADD", "1SUB", "2MUL", "2DIV", "NEGATE", "ABS", "NOT", "0NOTEQUAL", "ADD", "SUB", "MUL", "DIV", "MOD", "LSHIFT", "RSHIFT",
          "BOOLAND", "BOOLOR", "NUMEQUAL", "NUMEQUALVERIFY", "NUMNOTEQUAL", "LESSTHAN", "GREATERTHAN", "LESSTHANOREQUAL", "GREATERTHANOREQUAL", "MIN", "MAX", "WITHIN",
          "RIPEMD160", "SHA1", "SHA256", "HASH160", "HASH256", "CODESEPARATOR", "CHECKSIG", "CHECKSIGVERIFY", "CHECKMULTISIG", "CHECKMULTISIGVERIFY",
          "NOP1", "CHECKLOCKTIMEVERIFY", "CHECKSEQUENCEVERIFY", "NOP4", "NOP5", "NOP6", "NOP7", "NOP8", "NOP9", "NOP10", "CHECKSIGADD"]
for _i, _n in enumerate(_names):
    OP[_n] = 0x61 + _i
assert OP["CHECKSIGADD"] == 0xba and OP["NOP10"] == 0xb9 and OP["WITHIN"] == 0xa5 and OP["CHECKSIG"] == 0xac and OP["EQUAL"] == 0x87
OPNAME = {v: "OP_" + k for k, v in OP.items()}
globals().update({"OP_" + k: v for k, v in OP.items()})
MAX_DEFINED_OPCODE = OP["CHECKSIGADD"]

FLAG_NAMES = ["P2SH", "STRICTENC", "DERSIG", "LOW_S", "NULLDUMMY", "SIGPUSHONLY", "MINIMALDATA",
              "DISCOURAGE_UPGRADABLE_NOPS", "CLEANSTACK", "CHECKLOCKTIMEVERIFY", "CHECKSEQUENCEVERIFY", "WITNESS",
              "DISCOURAGE_UPGRADABLE_WITNESS_PROGRAM", "MINIMALIF", "NULLFAIL", "WITNESS_PUBKEYTYPE", "CONST_SCRIPTCODE", "TAPROOT",
              "DISCOURAGE_UPGRADABLE_TAPROOT_VERSION", "DISCOURAGE_OP_SUCCESS", "DISCOURAGE_UPGRADABLE_PUBKEYTYPE"]
F = {n: 1 << i for i, n in enumerate(FLAG_NAMES)}
ALL_FLAGS = (1 << len(FLAG_NAMES)) - 1
# Bitcoin Core's STANDARD_SCRIPT_VERIFY_FLAGS: mandatory (P2SH DERSIG NULLDUMMY CLTV CSV WITNESS TAPROOT) plus
# STRICTENC MINIMALDATA DISCOURAGE_UPGRADABLE_NOPS CLEANSTACK MINIMALIF NULLFAIL LOW_S
# DISCOURAGE_UPGRADABLE_WITNESS_PROGRAM WITNESS_PUBKEYTYPE CONST_SCRIPTCODE DISCOURAGE_UPGRADABLE_TAPROOT_VERSION
# DISCOURAGE_OP_SUCCESS DISCOURAGE_UPGRADABLE_PUBKEYTYPE  -- i.e. everything except SIGPUSHONLY.
STANDARD = sum(F[n] for n in F if n != "SIGPUSHONLY")

BASE, WITNESS_V0, TAPROOT, TAPSCRIPT = 0, 1, 2, 3
DISABLED = {OP_CAT, OP_SUBSTR, OP_LEFT, OP_RIGHT, OP_INVERT, OP_AND, OP_OR, OP_XOR, OP_2MUL, OP_2DIV, OP_MUL, OP_DIV, OP_MOD, OP_LSHIFT, OP_RSHIFT}

ERRNAMES = ["OK", "UNKNOWN_ERROR", "EVAL_FALSE", "OP_RETURN", "SCRIPT_SIZE", "PUSH_SIZE", "OP_COUNT", "STACK_SIZE", "SIG_COUNT", "PUBKEY_COUNT",
            "VERIFY", "EQUALVERIFY", "CHECKMULTISIGVERIFY", "CHECKSIGVERIFY", "NUMEQUALVERIFY", "BAD_OPCODE", "DISABLED_OPCODE", "INVALID_STACK_OPERATION",
            "INVALID_ALTSTACK_OPERATION", "UNBALANCED_CONDITIONAL", "NEGATIVE_LOCKTIME", "UNSATISFIED_LOCKTIME", "SIG_HASHTYPE", "SIG_DER", "MINIMALDATA",
            "SIG_PUSHONLY", "SIG_HIGH_S", "SIG_NULLDUMMY", "PUBKEYTYPE", "CLEANSTACK", "MINIMALIF", "SIG_NULLFAIL", "DISCOURAGE_UPGRADABLE_NOPS",
            "DISCOURAGE_UPGRADABLE_WITNESS_PROGRAM", "DISCOURAGE_UPGRADABLE_TAPROOT_VERSION", "DISCOURAGE_OP_SUCCESS", "DISCOURAGE_UPGRADABLE_PUBKEYTYPE",
            "WITNESS_PROGRAM_WRONG_LENGTH", "WITNESS_PROGRAM_WITNESS_EMPTY", "WITNESS_PROGRAM_MISMATCH", "WITNESS_MALLEATED", "WITNESS_MALLEATED_P2SH",
            "WITNESS_UNEXPECTED", "WITNESS_PUBKEYTYPE", "SCHNORR_SIG_SIZE", "SCHNORR_SIG_HASHTYPE", "SCHNORR_SIG", "TAPROOT_WRONG_CONTROL_SIZE",
            "TAPSCRIPT_VALIDATION_WEIGHT", "TAPSCRIPT_CHECKMULTISIG", "TAPSCRIPT_MINIMALIF", "OP_CODESEPARATOR", "SIG_FINDANDDELETE"]


def is_op_success(o):
    return o == 80 or o == 98 or 126 <= o <= 129 or 131 <= o <= 134 or 137 <= o <= 138 or 141 <= o <= 142 or 149 <= o <= 153 or 187 <= o <= 254


class ScriptFail(Exception):
    def __init__(self, code):
        self.code = code


class NumErr(Exception):
    def __init__(self, kind):
        self.kind = kind   # 'overflow' | 'nonminimal'


def get_op(s, pc):
    """returns (opcode, data, newpc) or None when undecodable"""
    end = len(s)
    if pc >= end:
        return None
    o = s[pc]
    pc += 1
    if o <= OP_PUSHDATA4:
        if o < OP_PUSHDATA1:
            n = o
        elif o == OP_PUSHDATA1:
            if end - pc < 1:
                return None
            n = s[pc]
            pc += 1
        elif o == OP_PUSHDATA2:
            if end - pc < 2:
                return None
            n = s[pc] | s[pc + 1] << 8
            pc += 2
        else:
            if end - pc < 4:
                return None
            n = int.from_bytes(s[pc:pc + 4], 'little')
            pc += 4
        if end - pc < n:
            return None
        return o, bytes(s[pc:pc + n]), pc + n
    return o, b'', pc


def decode_all(s):
    pc = 0
    ops = []
    while pc < len(s):
        r = get_op(s, pc)
        if r is None:
            return None
        ops.append((r[0], r[1]))
        pc = r[2]
    return ops


def in_domain(script, max_opcode=MAX_DEFINED_OPCODE):
    """C01 domain: decodes completely into defined opcodes with pushes of at most 520 bytes."""
    ops = decode_all(script)
    if ops is None:
        return False
    return not any(o > max_opcode or len(d) > MAX_SCRIPT_ELEMENT_SIZE for o, d in ops)


def num_encode(n):
    if n == 0:
        return b''
    neg = n < 0
    a = -n if neg else n
    out = bytearray()
    while a:
        out.append(a & 0xff)
        a >>= 8
    if out[-1] & 0x80:
        out.append(0x80 if neg else 0)
    elif neg:
        out[-1] |= 0x80
    return bytes(out)


def num_decode(b, minimal, maxsize=4):
    if len(b) > maxsize:
        raise NumErr('overflow')
    if minimal and len(b) > 0:
        if b[-1] & 0x7f == 0:
            if len(b) <= 1 or (b[-2] & 0x80) == 0:
                raise NumErr('nonminimal')
    if not b:
        return 0
    v = int.from_bytes(b, 'little')
    if b[-1] & 0x80:
        return -(v & ~(0x80 << (8 * (len(b) - 1))))
    return v


def cast_bool(b):
    for i, c in enumerate(b):
        if c != 0:
            return not (i == len(b) - 1 and c == 0x80)
    return False


def check_minimal_push(data, o):
    n = len(data)
    if n == 0:
        return o == OP_0
    if n == 1 and 1 <= data[0] <= 16:
        return False
    if n == 1 and data[0] == 0x81:
        return False
    if n <= 75:
        return o == n
    if n <= 255:
        return o == OP_PUSHDATA1
    if n <= 65535:
        return o == OP_PUSHDATA2
    return True


def push_data(data):
    """the minimal push of `data` (what a script assembler must emit)"""
    n = len(data)
    if n == 0:
        return bytes([OP_0])
    if n == 1 and 1 <= data[0] <= 16:
        return bytes([OP_1 - 1 + data[0]])
    if n == 1 and data[0] == 0x81:
        return bytes([OP_1NEGATE])
    return push_only(data)


def push_only(data):
    """direct push (CScript << vector): shortest length prefix, never OP_n"""
    n = len(data)
    if n < OP_PUSHDATA1:
        return bytes([n]) + data
    if n <= 0xff:
        return bytes([OP_PUSHDATA1, n]) + data
    if n <= 0xffff:
        return bytes([OP_PUSHDATA2, n & 255, n >> 8]) + data
    return bytes([OP_PUSHDATA4]) + n.to_bytes(4, 'little') + data


def push_num(n):
    if n == 0:
        return bytes([OP_0])
    if n == -1 or 1 <= n <= 16:
        return bytes([n + OP_1 - 1])
    return push_only(num_encode(n))


def sha256(b):
    return hashlib.sha256(b).digest()


def ripemd160(b):
    try:
        return hashlib.new('ripemd160', b).digest()
    except ValueError:
        from ref import codec
        return codec.ripemd160_py(b)


def sha1(b):
    return hashlib.sha1(b).digest()


def hash160(b):
    return ripemd160(sha256(b))


def hash256(b):
    return sha256(sha256(b))


class NullChecker:
    """BaseSignatureChecker: no transaction context, every check fails."""
    def check_ecdsa(self, sig, pub, scriptcode, sigversion):
        return False

    def check_schnorr(self, sig, pub, sigversion, interp):
        # without a transaction the check simply fails; which script error is reported is not prescribed
        return (False, 'ANY')

    def check_locktime(self, n):
        return False

    def check_sequence(self, n):
        return False


def int_clamp(v):
    return max(-2 ** 31, min(2 ** 31 - 1, v))


class Interp:
    def __init__(self, script, stack, flags, sigversion, checker=None, allow_disabled=False,
                 weight=None, mock=None, mock_mode='normal', alt=None, vf=None):
        self.script = bytes(script)
        self.stack = [bytes(x) for x in stack]
        self.alt = [] if alt is None else alt
        self.vf = [] if vf is None else vf
        self.pc = 0
        self.nop = 0
        self.flags = flags
        self.sv = sigversion
        self.checker = checker or NullChecker()
        self.begincode = 0
        self.opcode_pos = 0
        self.codesep_pos = 0xffffffff
        self.allow_disabled = allow_disabled
        self.minimal = bool(flags & F["MINIMALDATA"])
        self.last = None
        self.weight = weight           # BIP342 validation weight left (None = unknown/not tracked)
        self.mock = mock               # set of (sig, pub) pairs, or None
        self.mock_mode = mock_mode     # how a listed key with an unlisted signature is treated ('normal' | 'fail')
        self.mock_pubs = set(p for _, p in mock) if mock else set()
        self.sighashes = []            # digests the checker computed during the last step
        self.msig_trace = []           # per (signature, key) comparison of the last CHECKMULTISIG: True/False
        self.mock_touched = False      # a listed key was involved in some check

    def at_end(self):
        return self.pc >= len(self.script)

    def vfstate(self):
        ff = len(self.vf)
        for i, b in enumerate(self.vf):
            if not b:
                ff = i
                break
        return (len(self.vf), ff)

    def step(self):
        """executes one op; raises ScriptFail / NumErr"""
        st = self.stack
        alt = self.alt
        fl = self.flags
        sv = self.sv
        fexec = all(self.vf)
        r = get_op(self.script, self.pc)
        if r is None:
            raise ScriptFail("BAD_OPCODE")
        o, data, npc = r
        self.pc = npc
        self.last = (o, data)
        if len(data) > MAX_SCRIPT_ELEMENT_SIZE:
            raise ScriptFail("PUSH_SIZE")
        if sv in (BASE, WITNESS_V0):
            if o > OP_16:
                self.nop += 1
                if self.nop > MAX_OPS_PER_SCRIPT:
                    raise ScriptFail("OP_COUNT")
        if o in DISABLED and not self.allow_disabled:
            raise ScriptFail("DISABLED_OPCODE")
        if o == OP_CODESEPARATOR and sv == BASE and fl & F["CONST_SCRIPTCODE"]:
            raise ScriptFail("OP_CODESEPARATOR")
        if fexec and o <= OP_PUSHDATA4:
            if self.minimal and not check_minimal_push(data, o):
                raise ScriptFail("MINIMALDATA")
            st.append(data)
        elif fexec or (OP_IF <= o <= OP_ENDIF):
            self.exec_op(o, fexec)
        if len(st) + len(alt) > MAX_STACK_SIZE:
            raise ScriptFail("STACK_SIZE")
        self.opcode_pos += 1

    def num(self, b, maxsize=4):
        return num_decode(b, self.minimal, maxsize)

    def exec_op(self, o, fexec):
        st = self.stack
        alt = self.alt
        fl = self.flags
        sv = self.sv

        def need(n):
            if len(st) < n:
                raise ScriptFail("INVALID_STACK_OPERATION")
        if o in DISABLED:
            return self.exec_extended(o)
        if o == OP_1NEGATE or OP_1 <= o <= OP_16:
            st.append(num_encode(o - (OP_1 - 1)))
        elif o == OP_NOP:
            pass
        elif o == OP_CHECKLOCKTIMEVERIFY:
            if not fl & F["CHECKLOCKTIMEVERIFY"]:
                return
            need(1)
            n = self.num(st[-1], 5)
            if n < 0:
                raise ScriptFail("NEGATIVE_LOCKTIME")
            if not self.checker.check_locktime(n):
                raise ScriptFail("UNSATISFIED_LOCKTIME")
        elif o == OP_CHECKSEQUENCEVERIFY:
            if not fl & F["CHECKSEQUENCEVERIFY"]:
                return
            need(1)
            n = self.num(st[-1], 5)
            if n < 0:
                raise ScriptFail("NEGATIVE_LOCKTIME")
            if n & (1 << 31):
                return
            if not self.checker.check_sequence(n):
                raise ScriptFail("UNSATISFIED_LOCKTIME")
        elif o in (OP_NOP1, OP_NOP4, OP_NOP5, OP_NOP6, OP_NOP7, OP_NOP8, OP_NOP9, OP_NOP10):
            if fl & F["DISCOURAGE_UPGRADABLE_NOPS"]:
                raise ScriptFail("DISCOURAGE_UPGRADABLE_NOPS")
        elif o in (OP_IF, OP_NOTIF):
            v = False
            if fexec:
                if len(st) < 1:
                    raise ScriptFail("UNBALANCED_CONDITIONAL")
                top = st[-1]
                if sv == TAPSCRIPT:
                    if len(top) > 1 or (len(top) == 1 and top[0] != 1):
                        raise ScriptFail("TAPSCRIPT_MINIMALIF")
                if sv == WITNESS_V0 and fl & F["MINIMALIF"]:
                    if len(top) > 1 or (len(top) == 1 and top[0] != 1):
                        raise ScriptFail("MINIMALIF")
                v = cast_bool(top)
                if o == OP_NOTIF:
                    v = not v
                st.pop()
            self.vf.append(v)
        elif o == OP_ELSE:
            if not self.vf:
                raise ScriptFail("UNBALANCED_CONDITIONAL")
            self.vf[-1] = not self.vf[-1]
        elif o == OP_ENDIF:
            if not self.vf:
                raise ScriptFail("UNBALANCED_CONDITIONAL")
            self.vf.pop()
        elif o == OP_VERIFY:
            need(1)
            if cast_bool(st[-1]):
                st.pop()
            else:
                raise ScriptFail("VERIFY")
        elif o == OP_RETURN:
            raise ScriptFail("OP_RETURN")
        elif o == OP_TOALTSTACK:
            need(1)
            alt.append(st.pop())
        elif o == OP_FROMALTSTACK:
            if len(alt) < 1:
                raise ScriptFail("INVALID_ALTSTACK_OPERATION")
            st.append(alt.pop())
        elif o == OP_2DROP:
            need(2)
            st.pop()
            st.pop()
        elif o == OP_2DUP:
            need(2)
            st.extend(st[-2:])
        elif o == OP_3DUP:
            need(3)
            st.extend(st[-3:])
        elif o == OP_2OVER:
            need(4)
            st.extend(st[-4:-2])
        elif o == OP_2ROT:
            need(6)
            a = st[-6:-4]
            del st[-6:-4]
            st.extend(a)
        elif o == OP_2SWAP:
            need(4)
            st[-4:] = st[-2:] + st[-4:-2]
        elif o == OP_IFDUP:
            need(1)
            if cast_bool(st[-1]):
                st.append(st[-1])
        elif o == OP_DEPTH:
            st.append(num_encode(len(st)))
        elif o == OP_DROP:
            need(1)
            st.pop()
        elif o == OP_DUP:
            need(1)
            st.append(st[-1])
        elif o == OP_NIP:
            need(2)
            del st[-2]
        elif o == OP_OVER:
            need(2)
            st.append(st[-2])
        elif o in (OP_PICK, OP_ROLL):
            need(2)
            n = int_clamp(self.num(st[-1]))
            st.pop()
            if n < 0 or n >= len(st):
                raise ScriptFail("INVALID_STACK_OPERATION")
            v = st[-n - 1]
            if o == OP_ROLL:
                del st[-n - 1]
            st.append(v)
        elif o == OP_ROT:
            need(3)
            st[-3:] = [st[-2], st[-1], st[-3]]
        elif o == OP_SWAP:
            need(2)
            st[-2:] = [st[-1], st[-2]]
        elif o == OP_TUCK:
            need(2)
            st.insert(len(st) - 2, st[-1])
        elif o == OP_SIZE:
            need(1)
            st.append(num_encode(len(st[-1])))
        elif o in (OP_EQUAL, OP_EQUALVERIFY):
            need(2)
            eq = st[-2] == st[-1]
            st.pop()
            st.pop()
            if o == OP_EQUALVERIFY:
                if not eq:
                    # consensus pushes the result, then fails: the false stays on the stack
                    st.append(b'')
                    raise ScriptFail("EQUALVERIFY")
            else:
                st.append(b'\x01' if eq else b'')
        elif o in (OP_1ADD, OP_1SUB, OP_NEGATE, OP_ABS, OP_NOT, OP_0NOTEQUAL):
            need(1)
            n = self.num(st[-1])
            if o == OP_1ADD:
                n += 1
            elif o == OP_1SUB:
                n -= 1
            elif o == OP_NEGATE:
                n = -n
            elif o == OP_ABS:
                n = abs(n)
            elif o == OP_NOT:
                n = int(n == 0)
            else:
                n = int(n != 0)
            st.pop()
            st.append(num_encode(n))
        elif o in (OP_ADD, OP_SUB, OP_BOOLAND, OP_BOOLOR, OP_NUMEQUAL, OP_NUMEQUALVERIFY, OP_NUMNOTEQUAL, OP_LESSTHAN,
                   OP_GREATERTHAN, OP_LESSTHANOREQUAL, OP_GREATERTHANOREQUAL, OP_MIN, OP_MAX):
            need(2)
            a = self.num(st[-2])
            b = self.num(st[-1])
            if o == OP_ADD:
                r = a + b
            elif o == OP_SUB:
                r = a - b
            elif o == OP_BOOLAND:
                r = int(a != 0 and b != 0)
            elif o == OP_BOOLOR:
                r = int(a != 0 or b != 0)
            elif o in (OP_NUMEQUAL, OP_NUMEQUALVERIFY):
                r = int(a == b)
            elif o == OP_NUMNOTEQUAL:
                r = int(a != b)
            elif o == OP_LESSTHAN:
                r = int(a < b)
            elif o == OP_GREATERTHAN:
                r = int(a > b)
            elif o == OP_LESSTHANOREQUAL:
                r = int(a <= b)
            elif o == OP_GREATERTHANOREQUAL:
                r = int(a >= b)
            elif o == OP_MIN:
                r = min(a, b)
            else:
                r = max(a, b)
            st.pop()
            st.pop()
            st.append(num_encode(r))
            if o == OP_NUMEQUALVERIFY:
                if not r:
                    raise ScriptFail("NUMEQUALVERIFY")
                st.pop()
        elif o == OP_WITHIN:
            need(3)
            x = self.num(st[-3])
            lo = self.num(st[-2])
            hi = self.num(st[-1])
            del st[-3:]
            st.append(b'\x01' if lo <= x < hi else b'')
        elif o in (OP_RIPEMD160, OP_SHA1, OP_SHA256, OP_HASH160, OP_HASH256):
            need(1)
            v = st.pop()
            if o == OP_RIPEMD160:
                h = ripemd160(v)
            elif o == OP_SHA1:
                h = sha1(v)
            elif o == OP_SHA256:
                h = sha256(v)
            elif o == OP_HASH160:
                h = ripemd160(sha256(v))
            else:
                h = sha256(sha256(v))
            st.append(h)
        elif o == OP_CODESEPARATOR:
            self.begincode = self.pc
            self.codesep_pos = self.opcode_pos
        elif o in (OP_CHECKSIG, OP_CHECKSIGVERIFY):
            need(2)
            ok = self.eval_checksig(st[-2], st[-1])
            st.pop()
            st.pop()
            st.append(b'\x01' if ok else b'')
            if o == OP_CHECKSIGVERIFY:
                if not ok:
                    raise ScriptFail("CHECKSIGVERIFY")
                st.pop()
        elif o == OP_CHECKSIGADD:
            if sv in (BASE, WITNESS_V0):
                raise ScriptFail("BAD_OPCODE")
            need(3)
            sig = st[-3]
            num = self.num(st[-2])
            pub = st[-1]
            ok = self.eval_checksig(sig, pub)
            del st[-3:]
            st.append(num_encode(num + (1 if ok else 0)))
        elif o in (OP_CHECKMULTISIG, OP_CHECKMULTISIGVERIFY):
            if sv == TAPSCRIPT:
                raise ScriptFail("TAPSCRIPT_CHECKMULTISIG")
            i = 1
            need(i)
            nkeys = int_clamp(self.num(st[-i]))
            if nkeys < 0 or nkeys > MAX_PUBKEYS_PER_MULTISIG:
                raise ScriptFail("PUBKEY_COUNT")
            self.nop += nkeys
            if self.nop > MAX_OPS_PER_SCRIPT:
                raise ScriptFail("OP_COUNT")
            i += 1
            ikey = i
            ikey2 = nkeys + 2
            i += nkeys
            need(i)
            nsigs = int_clamp(self.num(st[-i]))
            if nsigs < 0 or nsigs > nkeys:
                raise ScriptFail("SIG_COUNT")
            i += 1
            isig = i
            i += nsigs
            need(i)
            scriptcode = self.script[self.begincode:]
            for k in range(nsigs):
                sig = st[-isig - k]
                if sv == BASE:
                    scriptcode, found = find_and_delete(scriptcode, push_only(sig))
                    if found and fl & F["CONST_SCRIPTCODE"]:
                        # (C11) the rule belongs to the real check; a signature listed with one of the keys of this very
                        # operation is pretended valid there, it has no digest and no scriptCode
                        if not (self.mock and any((sig, st[-ikey - j]) in self.mock for j in range(nkeys))):
                            raise ScriptFail("SIG_FINDANDDELETE")
            success = True
            self.msig_trace = []
            while success and nsigs > 0:
                sig = st[-isig]
                pub = st[-ikey]
                mock = self.mock_lookup(sig, pub)
                if mock is not None:
                    ok = mock
                else:
                    self.check_sig_encoding(sig)
                    self.check_pub_encoding(pub)
                    ok = self.checker.check_ecdsa(sig, pub, scriptcode, sv)
                    self._note_digest()
                self.msig_trace.append(ok)
                if ok:
                    isig += 1
                    nsigs -= 1
                ikey += 1
                nkeys -= 1
                if nsigs > nkeys:
                    success = False
            while i > 1:
                i -= 1
                if not success and fl & F["NULLFAIL"] and not ikey2 and len(st[-1]):
                    raise ScriptFail("SIG_NULLFAIL")
                if ikey2 > 0:
                    ikey2 -= 1
                st.pop()
            need(1)
            if fl & F["NULLDUMMY"] and len(st[-1]):
                raise ScriptFail("SIG_NULLDUMMY")
            st.pop()
            st.append(b'\x01' if success else b'')
            if o == OP_CHECKMULTISIGVERIFY:
                if not success:
                    raise ScriptFail("CHECKMULTISIGVERIFY")
                st.pop()
        else:
            raise ScriptFail("BAD_OPCODE")

    # ---- re-enabled opcodes (C17): the functions their names denote -------------------------------
    def exec_extended(self, o):
        st = self.stack

        def need(n):
            if len(st) < n:
                raise ScriptFail("INVALID_STACK_OPERATION")
        if o == OP_CAT:
            need(2)
            if len(st[-1]) + len(st[-2]) > MAX_SCRIPT_ELEMENT_SIZE:
                raise ScriptFail("PUSH_SIZE")     # no operation puts an element of more than 520 bytes on the stack (original OP_CAT, BIP347)
            b = st.pop()
            a = st.pop()
            st.append(a + b)
        elif o == OP_SUBSTR:
            need(3)
            begin = self.num(st[-2], 5)
            size = self.num(st[-1], 5)
            s = st[-3]
            if begin < 0 or size < 0 or begin + size > len(s):
                raise ScriptFail("ANY")
            del st[-3:]
            st.append(s[begin:begin + size])
        elif o in (OP_LEFT, OP_RIGHT):
            need(2)
            size = self.num(st[-1], 5)
            s = st[-2]
            if size < 0 or size > len(s):
                raise ScriptFail("ANY")
            del st[-2:]
            st.append(s[:size] if o == OP_LEFT else s[len(s) - size:])
        elif o == OP_INVERT:
            need(1)
            s = st.pop()
            st.append(bytes(c ^ 0xff for c in s))
        elif o in (OP_AND, OP_OR, OP_XOR):
            need(2)
            a, b = st[-2], st[-1]
            if len(a) != len(b):
                raise ScriptFail("ANY")
            del st[-2:]
            if o == OP_AND:
                st.append(bytes(x & y for x, y in zip(a, b)))
            elif o == OP_OR:
                st.append(bytes(x | y for x, y in zip(a, b)))
            else:
                st.append(bytes(x ^ y for x, y in zip(a, b)))
        elif o in (OP_2MUL, OP_2DIV):
            need(1)
            n = self.num(st[-1], 8)
            st.pop()
            if o == OP_2MUL:
                r = n * 2
                st.append(('num', [r]))
            else:
                # "2DIV" is division by two: the same signed-integer division OP_DIV denotes (quotient truncated toward
                # zero, as in C++ and in the original implementation's sign-magnitude halving), so -3 -> -1, -1 -> 0
                st.append(('num', [(abs(n) // 2) * (1 if n >= 0 else -1)]))
        elif o in (OP_MUL, OP_DIV, OP_MOD, OP_LSHIFT, OP_RSHIFT):
            need(2)
            a = self.num(st[-2], 8)
            b = self.num(st[-1], 8)
            if o == OP_MUL:
                rs = [a * b]
            elif o in (OP_DIV, OP_MOD):
                if b == 0:
                    raise ScriptFail("ANY")
                q = abs(a) // abs(b)
                if (a < 0) != (b < 0):
                    q = -q
                rs = [q] if o == OP_DIV else [a - q * b]
            elif o == OP_LSHIFT:
                if b < 0:
                    raise ScriptFail("ANY")
                rs = [0] if a == 0 else ([a << b] if b < 64 else [None])
            else:
                if b < 0:
                    raise ScriptFail("ANY")
                fl_ = a >> b if b < 200 else (0 if a >= 0 else -1)
                tr = (abs(a) >> b) * (1 if a >= 0 else -1) if b < 200 else 0
                rs = sorted({fl_, tr})
            del st[-2:]
            st.append(('num', rs))
        else:
            raise ScriptFail("BAD_OPCODE")

    # ---- signatures -----------------------------------------------------------------------------------
    def _note_digest(self):
        d = getattr(self.checker, 'last_digest', None)
        if d is not None:
            self.sighashes.append(d)
            self.checker.last_digest = None

    def mock_lookup(self, sig, pub):
        """None = the option does not decide this check; True/False = it does."""
        if not self.mock:
            return None
        if pub in self.mock_pubs:
            self.mock_touched = True
        if (sig, pub) in self.mock:
            return True
        if pub in self.mock_pubs and self.mock_mode.startswith('fail'):
            return False
        return None

    def check_sig_encoding(self, sig):
        fl = self.flags
        if len(sig) == 0:
            return
        if fl & (F["DERSIG"] | F["LOW_S"] | F["STRICTENC"]) and not is_valid_sig_encoding(sig):
            raise ScriptFail("SIG_DER")
        if fl & F["LOW_S"]:
            if not is_valid_sig_encoding(sig):
                raise ScriptFail("SIG_DER")
            if not is_low_s(sig):
                raise ScriptFail("SIG_HIGH_S")
        if fl & F["STRICTENC"]:
            ht = sig[-1] & ~0x80
            if ht < 1 or ht > 3:
                raise ScriptFail("SIG_HASHTYPE")

    def check_pub_encoding(self, pub):
        fl = self.flags
        if fl & F["STRICTENC"] and not is_comp_or_uncomp(pub):
            raise ScriptFail("PUBKEYTYPE")
        if fl & F["WITNESS_PUBKEYTYPE"] and self.sv == WITNESS_V0 and not (len(pub) == 33 and pub[0] in (2, 3)):
            raise ScriptFail("WITNESS_PUBKEYTYPE")

    def eval_checksig(self, sig, pub):
        sv = self.sv
        fl = self.flags
        m = self.mock_lookup(sig, pub)
        if m is True:
            if sv == TAPSCRIPT and self.mock_mode.endswith('+budget') and len(sig) and self.weight is not None:
                # (reading in which the BIP342 budget - a resource rule, neither context nor encoding - is charged for a pretended pair too)
                self.weight -= VALIDATION_WEIGHT_PER_SIGOP_PASSED
                if self.weight < 0:
                    raise ScriptFail("TAPSCRIPT_VALIDATION_WEIGHT")
            return True
        if sv in (BASE, WITNESS_V0):
            scriptcode = self.script[self.begincode:]
            if sv == BASE:
                scriptcode, found = find_and_delete(scriptcode, push_only(sig))
                if found and fl & F["CONST_SCRIPTCODE"]:
                    raise ScriptFail("SIG_FINDANDDELETE")
            self.check_sig_encoding(sig)
            self.check_pub_encoding(pub)
            ok = False if m is False else self.checker.check_ecdsa(sig, pub, scriptcode, sv)
            self._note_digest()
            if not ok and fl & F["NULLFAIL"] and len(sig):
                raise ScriptFail("SIG_NULLFAIL")
            return ok
        if sv == TAPROOT:
            # key path: the debugger presents "<program> OP_CHECKSIG"; consensus verifies the signature directly
            ok, err = self.checker.check_schnorr(sig, pub, TAPROOT, self)
            self._note_digest()
            if not ok:
                raise ScriptFail(err or "SCHNORR_SIG")
            return True
        # BIP342
        success = len(sig) > 0
        if success:
            if self.weight is not None:
                self.weight -= VALIDATION_WEIGHT_PER_SIGOP_PASSED
                if self.weight < 0:
                    raise ScriptFail("TAPSCRIPT_VALIDATION_WEIGHT")
        if len(pub) == 0:
            raise ScriptFail("PUBKEYTYPE")
        elif len(pub) == 32:
            if success:
                if m is False:
                    raise ScriptFail("SCHNORR_SIG")
                ok, err = self.checker.check_schnorr(sig, pub, TAPSCRIPT, self)
                self._note_digest()
                if not ok:
                    raise ScriptFail(err or "SCHNORR_SIG")
        else:
            if fl & F["DISCOURAGE_UPGRADABLE_PUBKEYTYPE"]:
                raise ScriptFail("DISCOURAGE_UPGRADABLE_PUBKEYTYPE")
        return success


def find_and_delete(script, b):
    if not b:
        return script, 0
    out = b''
    pc = 0
    pc2 = 0
    found = 0
    end = len(script)
    while True:
        out += script[pc2:pc]
        while end - pc >= len(b) and script[pc:pc + len(b)] == b:
            pc += len(b)
            found += 1
        pc2 = pc
        r = get_op(script, pc)
        if r is None:
            break
        pc = r[2]
    if found:
        return out + script[pc2:], found
    return script, 0


def is_valid_sig_encoding(sig):
    L = len(sig)
    if L < 9 or L > 73:
        return False
    if sig[0] != 0x30:
        return False
    if sig[1] != L - 3:
        return False
    lr = sig[3]
    if 5 + lr >= L:
        return False
    ls = sig[5 + lr]
    if lr + ls + 7 != L:
        return False
    if sig[2] != 2:
        return False
    if lr == 0:
        return False
    if sig[4] & 0x80:
        return False
    if lr > 1 and sig[4] == 0 and not sig[5] & 0x80:
        return False
    if sig[lr + 4] != 2:
        return False
    if ls == 0:
        return False
    if sig[lr + 6] & 0x80:
        return False
    if ls > 1 and sig[lr + 6] == 0 and not sig[lr + 7] & 0x80:
        return False
    return True


N_ORDER = 0xFFFFFFFFFFFFFFFFFFFFFFFFFFFFFFFEBAAEDCE6AF48A03BBFD25E8CD0364141


def is_low_s(sig):
    # sig passed BIP66; s is the second integer
    lr = sig[3]
    ls = sig[5 + lr]
    s = int.from_bytes(sig[6 + lr:6 + lr + ls], 'big')
    if s >= N_ORDER:
        return True   # overflowing S parses as zero in libsecp256k1's lax parser -> not "high"
    return s <= N_ORDER // 2


def is_comp_or_uncomp(pub):
    if len(pub) < 33:
        return False
    if pub[0] == 4:
        return len(pub) == 65
    if pub[0] in (2, 3):
        return len(pub) == 33
    return False


def is_p2sh(script):
    return len(script) == 23 and script[0] == OP_HASH160 and script[1] == 20 and script[22] == OP_EQUAL


def is_push_only(script):
    pc = 0
    while pc < len(script):
        r = get_op(script, pc)
        if r is None:
            return False
        if r[0] > OP_16:
            return False
        pc = r[2]
    return True


class Session:
    """What a debugger session over (script [, successor scriptPubKey]) must show, one step at a time.

    step() returns one of
       ('ok',   kind)        an operation (kind='op') or a seam (kind='switch') was performed
       ('fail', code, kind)  the step failed with this script error ('NUM_overflow'/'NUM_nonminimal' for
                             number-decoding failures, 'ANY' where only *some* script error is required)
       ('done',)             the terminal step: everything executed, conditionals balanced
    Seams follow consensus: after a scriptSig the conditional stack must be empty and the alt stack is
    not carried over; a P2SH scriptPubKey must leave a true value and then the serialized script is
    popped from the stack as it was after the scriptSig.
    """

    def __init__(self, script, stack, flags, sv, checker=None, successor=b'', allow_disabled=False,
                 weight=None, mock=None, mock_mode='normal', commitment_steps=0):
        self.flags = flags
        self.sv = sv
        self.checker = checker or NullChecker()
        self.allow_disabled = allow_disabled
        self.mock = mock
        self.mock_mode = mock_mode
        self.successor = bytes(successor)
        self.commitment_left = commitment_steps
        self.cur = Interp(script, stack, flags, sv, self.checker, allow_disabled, weight, mock, mock_mode)
        self.done = False
        self.p2sh_copy = None
        # the pay-to-script-hash pattern matters where a scriptPubKey is: a plain (legacy) script given with its stack.
        # Not in a scriptSig (a scriptPubKey follows), not in a witness script or tapscript - consensus runs those as they are.
        if flags & F["P2SH"] and sv == BASE and not self.successor and is_p2sh(self.cur.script):
            self.p2sh_copy = list(self.cur.stack)
        self.phase = 0
        # BIP342: the initial stack of a tapscript execution is limited to 1000 elements before anything runs
        self.prefail = 'STACK_SIZE' if (sv == TAPSCRIPT and len(self.cur.stack) > MAX_STACK_SIZE) else None
        # the scriptSig push-only rules, where consensus applies them: with SIGPUSHONLY before anything is evaluated; for a
        # pay-to-script-hash output after the scriptPubKey has been evaluated successfully (just before the redeem script is unpacked)
        self.scriptsig_push_only = is_push_only(self.cur.script) if self.successor else True
        if self.successor and flags & F["SIGPUSHONLY"] and not self.scriptsig_push_only:
            self.prefail = 'SIG_PUSHONLY'
        if self.cur.at_end() and not self.successor and self.p2sh_copy is None and not commitment_steps:
            # an empty script has nothing to execute: the session is complete from the start
            self.done = True

    # convenience accessors
    @property
    def stack(self):
        return self.cur.stack

    @property
    def alt(self):
        return self.cur.alt

    def vfstate(self):
        return self.cur.vfstate()

    def _new(self, script, stack):
        old = self.cur
        self.cur = Interp(script, stack, self.flags, self.sv, self.checker, self.allow_disabled, old.weight, self.mock, self.mock_mode)
        self.cur.mock_touched = old.mock_touched
        self.phase += 1

    def step(self):
        assert not self.done
        c = self.cur
        c.sighashes = []
        if self.prefail:
            code, self.prefail = self.prefail, None
            return ('fail', code, 'setup')
        if self.commitment_left > 0:
            self.commitment_left -= 1
            return ('ok', 'commit')
        if not c.at_end():
            try:
                c.step()
            except ScriptFail as e:
                return ('fail', e.code, 'op')
            except NumErr as e:
                return ('fail', 'NUM_' + e.kind, 'op')
            return ('ok', 'op')
        # end of the current script
        if self.p2sh_copy is not None:
            if c.vf:
                return ('fail', 'UNBALANCED_CONDITIONAL', 'switch')
            if not c.stack or not cast_bool(c.stack[-1]):
                return ('fail', 'EVAL_FALSE', 'switch')
            if not self.scriptsig_push_only:
                return ('fail', 'SIG_PUSHONLY', 'switch')
            st = self.p2sh_copy
            if not st:
                return ('fail', 'ANY', 'switch')
            redeem = st[-1]
            if len(redeem) > MAX_SCRIPT_SIZE:
                return ('fail', 'SCRIPT_SIZE', 'switch')      # the redeem script is evaluated like any other script (EvalScript's first test)
            self.p2sh_copy = None
            self._new(redeem, st[:-1])
            return ('ok', 'switch')
        if self.successor:
            if c.vf:
                return ('fail', 'UNBALANCED_CONDITIONAL', 'switch')
            succ = self.successor
            if len(succ) > MAX_SCRIPT_SIZE:
                return ('fail', 'SCRIPT_SIZE', 'switch')      # every evaluated script is subject to the limit
            self.successor = b''
            self._new(succ, c.stack)
            if self.flags & F["P2SH"] and is_p2sh(succ):
                self.p2sh_copy = list(self.cur.stack)
            return ('ok', 'switch')
        self.done = True
        if c.vf:
            return ('fail', 'UNBALANCED_CONDITIONAL', 'finish')
        return ('done',)
