"""secp256k1 group law, ECDSA (consensus lax-DER semantics), BIP340 -- written from the specifications."""
import hashlib, struct

p = 2**256 - 2**32 - 977
n = 0xFFFFFFFFFFFFFFFFFFFFFFFFFFFFFFFEBAAEDCE6AF48A03BBFD25E8CD0364141
Gx = 0x79BE667EF9DCBBAC55A06295CE870B07029BFCDB2DCE28D959F2815B16F81798
Gy = 0x483ADA7726A3C4655DA4FBFC0E1108A8FD17B448A68554199C47D08FFB10D4B8

def sha256(b): return hashlib.sha256(b).digest()
def dsha(b): return sha256(sha256(b))
def hash160(b): return hashlib.new('ripemd160', sha256(b)).digest()
def tagged(tag, b):
    t = sha256(tag.encode()); return sha256(t + t + b)

# --- group law in Jacobian coordinates ---
def jdbl(P):
    if P is None: return None
    x, y, z = P
    if y == 0: return None
    s = 4*x*y*y % p; m = 3*x*x % p
    x3 = (m*m - 2*s) % p
    return (x3, (m*(s - x3) - 8*y*y*y*y) % p, 2*y*z % p)
def jadd(P, Q):
    if P is None: return Q
    if Q is None: return P
    x1, y1, z1 = P; x2, y2, z2 = Q
    z1z1 = z1*z1 % p; z2z2 = z2*z2 % p
    u1 = x1*z2z2 % p; u2 = x2*z1z1 % p
    s1 = y1*z2*z2z2 % p; s2 = y2*z1*z1z1 % p
    if u1 == u2:
        return jdbl(P) if s1 == s2 else None
    h = u2 - u1; r = s2 - s1
    h2 = h*h % p; h3 = h*h2 % p; u1h2 = u1*h2 % p
    x3 = (r*r - h3 - 2*u1h2) % p
    return (x3, (r*(u1h2 - x3) - s1*h3) % p, h*z1*z2 % p)
def jmul(P, k):
    k %= n; R = None; A = P
    while k:
        if k & 1: R = jadd(R, A)
        A = jdbl(A); k >>= 1
    return R
def aff(P):
    if P is None: return None
    x, y, z = P; zi = pow(z, -1, p); zi2 = zi*zi % p
    return (x*zi2 % p, y*zi2*zi % p)
G = (Gx, Gy, 1)
def on_curve(x, y): return (y*y - x*x*x - 7) % p == 0
def lift_x(x):
    if x >= p: return None
    y2 = (pow(x, 3, p) + 7) % p; y = pow(y2, (p+1)//4, p)
    if y*y % p != y2: return None
    return (x, y if y % 2 == 0 else p - y)

def parse_pubkey(b):
    """CPubKey semantics: 33 bytes 02/03, 65 bytes 04/06/07 (hybrid must match parity). returns affine point or None"""
    if len(b) == 33 and b[0] in (2, 3):
        x = int.from_bytes(b[1:], 'big'); P = lift_x(x)
        if P is None: return None
        return (P[0], P[1] if (P[1] & 1) == (b[0] & 1) else p - P[1])
    if len(b) == 65 and b[0] in (4, 6, 7):
        x = int.from_bytes(b[1:33], 'big'); y = int.from_bytes(b[33:], 'big')
        if x >= p or y >= p or not on_curve(x, y): return None
        if b[0] in (6, 7) and (y & 1) != (b[0] & 1): return None
        return (x, y)
    return None

def parse_der_lax(sig):
    """consensus lax DER parser (semantics of ecdsa_signature_parse_der_lax). returns (r, s) or None;
    overflowing/oversized integers give (0,0) (a correctly parsed but invalid signature)."""
    pos = 0; L = len(sig)
    if pos == L or sig[pos] != 0x30: return None
    pos += 1
    if pos == L: return None
    lenbyte = sig[pos]; pos += 1
    if lenbyte & 0x80:
        lenbyte -= 0x80
        if lenbyte > L - pos: return None
        pos += lenbyte
    def read_int(pos):
        if pos == L or sig[pos] != 0x02: return None
        pos += 1
        if pos == L: return None
        lb = sig[pos]; pos += 1
        if lb & 0x80:
            lb -= 0x80
            if lb > L - pos: return None
            while lb > 0 and sig[pos] == 0:
                pos += 1; lb -= 1
            if lb >= 8: return None   # sizeof(size_t)
            ln = 0
            while lb > 0:
                ln = (ln << 8) + sig[pos]; pos += 1; lb -= 1
        else:
            ln = lb
        if ln > L - pos: return None
        return pos, ln, pos + ln
    r = read_int(pos)
    if r is None: return None
    rpos, rlen, pos = r
    s = read_int(pos)
    if s is None: return None
    spos, slen, pos = s
    def val(pp, ln):
        while ln > 0 and sig[pp] == 0: pp += 1; ln -= 1
        if ln > 32: return None
        return int.from_bytes(sig[pp:pp+ln], 'big')
    rv = val(rpos, rlen); sv = val(spos, slen)
    if rv is None or sv is None or rv >= n or sv >= n: return (0, 0)
    return (rv, sv)

def ecdsa_verify_rs(P, r, s, z):
    if not (1 <= r < n and 1 <= s < n): return False
    if s > n // 2: s = n - s      # normalisation (consensus accepts high-S unless LOW_S flag)
    w = pow(s, -1, n)
    R = jadd(jmul(G, z*w % n), jmul((P[0], P[1], 1), r*w % n))
    if R is None: return False
    return aff(R)[0] % n == r

def ecdsa_verify(pub, sig_der, msg32):
    P = parse_pubkey(pub)
    if P is None: return False
    rs = parse_der_lax(sig_der)
    if rs is None: return False
    return ecdsa_verify_rs(P, rs[0], rs[1], int.from_bytes(msg32, 'big'))

def schnorr_verify(pk32, msg, sig64):
    if len(pk32) != 32 or len(sig64) != 64: return False
    P = lift_x(int.from_bytes(pk32, 'big'))
    r = int.from_bytes(sig64[:32], 'big'); s = int.from_bytes(sig64[32:], 'big')
    if P is None or r >= p or s >= n: return False
    e = int.from_bytes(tagged("BIP0340/challenge", sig64[:32] + pk32 + msg), 'big') % n
    R = jadd(jmul(G, s), jmul((P[0], P[1], 1), n - e))
    if R is None: return False
    R = aff(R)
    return R[1] % 2 == 0 and R[0] == r

def schnorr_sign(seckey, msg, aux=b'\x00'*32):
    d0 = seckey
    P = aff(jmul(G, d0)); d = d0 if P[1] % 2 == 0 else n - d0
    t = (d ^ int.from_bytes(tagged("BIP0340/aux", aux), 'big')).to_bytes(32, 'big')
    pk = P[0].to_bytes(32, 'big')
    k0 = int.from_bytes(tagged("BIP0340/nonce", t + pk + msg), 'big') % n
    R = aff(jmul(G, k0)); k = k0 if R[1] % 2 == 0 else n - k0
    e = int.from_bytes(tagged("BIP0340/challenge", R[0].to_bytes(32, 'big') + pk + msg), 'big') % n
    return R[0].to_bytes(32, 'big') + ((k + e*d) % n).to_bytes(32, 'big')



def schnorr_sign_nonce(seckey, msg, k0):
    """BIP340 signature with a caller-chosen nonce (any k0 gives a valid signature; used to steer the bytes of R)"""
    P = aff(jmul(G, seckey)); d = seckey if P[1] % 2 == 0 else n - seckey
    pk = P[0].to_bytes(32, 'big')
    R = aff(jmul(G, k0)); k = k0 if R[1] % 2 == 0 else n - k0
    e = int.from_bytes(tagged("BIP0340/challenge", R[0].to_bytes(32, 'big') + pk + msg), 'big') % n
    return R[0].to_bytes(32, 'big') + ((k + e*d) % n).to_bytes(32, 'big')


_NONCE_BY_FIRST_BYTE = {}


def nonce_with_first_byte(b, start=1):
    """smallest k >= start with (k*G).x starting with byte b"""
    key = (b, start)
    if key not in _NONCE_BY_FIRST_BYTE:
        k = start
        while True:
            if aff(jmul(G, k))[0] >> 248 == b:
                break
            k += 1
        _NONCE_BY_FIRST_BYTE[key] = k
    return _NONCE_BY_FIRST_BYTE[key]


def pub_from_sec(d, compressed=True):
    P = aff(jmul(G, d))
    if compressed:
        return bytes([2 + (P[1] & 1)]) + P[0].to_bytes(32, 'big')
    return b'\x04' + P[0].to_bytes(32, 'big') + P[1].to_bytes(32, 'big')


def xonly_from_sec(d):
    return aff(jmul(G, d))[0].to_bytes(32, 'big')


def der_int(v):
    b = v.to_bytes((v.bit_length() + 7) // 8 or 1, 'big')
    if b[0] & 0x80:
        b = b'\x00' + b
    return b'\x02' + bytes([len(b)]) + b


def der_sig(r, s):
    body = der_int(r) + der_int(s)
    return b'\x30' + bytes([len(body)]) + body


def ecdsa_sign_rs(d, msg32, low_s=True, extra=b''):
    z = int.from_bytes(msg32, 'big')
    ctr = 0
    while True:
        k = int.from_bytes(sha256(b'ref-nonce' + d.to_bytes(32, 'big') + msg32 + extra + bytes([ctr])), 'big') % n
        ctr += 1
        if k == 0:
            continue
        R = aff(jmul(G, k))
        r = R[0] % n
        if r == 0:
            continue
        s = pow(k, -1, n) * (z + r * d) % n
        if s == 0:
            continue
        if low_s and s > n // 2:
            s = n - s
        if not low_s and s <= n // 2:
            s = n - s
        return r, s


def ecdsa_sign(d, msg32, low_s=True, extra=b''):
    r, s = ecdsa_sign_rs(d, msg32, low_s, extra)
    return der_sig(r, s)


def xonly_tweak_add(pk32, tweak32):
    """BIP341: Q = lift_x(P) + t*G ; returns (x(Q) bytes, parity of y(Q)) or None"""
    P = lift_x(int.from_bytes(pk32, 'big'))
    t = int.from_bytes(tweak32, 'big')
    if P is None or t >= n:
        return None
    Q = jadd((P[0], P[1], 1), jmul(G, t)) if t else (P[0], P[1], 1)
    if Q is None:
        return None
    Q = aff(Q)
    return Q[0].to_bytes(32, 'big'), Q[1] & 1
