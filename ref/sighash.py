"""Signature digests: legacy (incl. FindAndDelete / OP_CODESEPARATOR removal / SIGHASH_SINGLE bug), BIP143, BIP341/342."""
import struct
from ref.tx import ser_cs, sha256, dsha


def tagged(tag, b):
    t = sha256(tag.encode())
    return sha256(t + t + b)

SIGHASH_ALL, SIGHASH_NONE, SIGHASH_SINGLE, ANYONECANPAY = 1, 2, 3, 0x80
def get_op(s, pc):
    end = len(s)
    if pc >= end: return None
    o = s[pc]; pc += 1
    if o <= 0x4e:
        if o < 0x4c: k = o
        elif o == 0x4c:
            if end - pc < 1: return None
            k = s[pc]; pc += 1
        elif o == 0x4d:
            if end - pc < 2: return None
            k = s[pc] | s[pc+1] << 8; pc += 2
        else:
            if end - pc < 4: return None
            k = int.from_bytes(s[pc:pc+4], 'little'); pc += 4
        if end - pc < k: return None
        return o, s[pc:pc+k], pc + k
    return o, b'', pc
def find_and_delete(script, b):
    if not b: return script, 0
    out = b''; pc = 0; pc2 = 0; found = 0; end = len(script)
    while True:
        out += script[pc2:pc]
        while end - pc >= len(b) and script[pc:pc+len(b)] == b:
            pc += len(b); found += 1
        pc2 = pc
        r = get_op(script, pc)
        if r is None: break
        pc = r[2]
    if found: return out + script[pc2:], found
    return script, 0
def remove_codeseps(script):
    # legacy serializer: drop every OP_CODESEPARATOR opcode (parsed as ops); bytes after an undecodable tail are kept
    out = b''; pc = 0; beg = 0
    while True:
        r = get_op(script, pc)
        if r is None: break
        o, d, npc = r
        if o == 0xab:
            out += script[beg:npc-1]; beg = npc
        pc = npc
    return out + script[beg:]
def sighash_legacy(t, idx, scriptcode, hashtype):
    ht = hashtype & 0x1f; acp = bool(hashtype & ANYONECANPAY)
    if ht == SIGHASH_SINGLE and idx >= len(t.vout): return (1).to_bytes(32, 'little')
    sc = remove_codeseps(scriptcode)
    o = struct.pack('<i', t.version)
    ins = [idx] if acp else range(len(t.vin))
    o += ser_cs(len(ins))
    for i in ins:
        h, pi, ss, seq = t.vin[i]
        o += h + struct.pack('<I', pi)
        o += (ser_cs(len(sc)) + sc) if i == idx else b'\x00'
        if i != idx and ht in (SIGHASH_SINGLE, SIGHASH_NONE): o += struct.pack('<I', 0)
        else: o += struct.pack('<I', seq)
    if ht == SIGHASH_NONE: o += ser_cs(0)
    elif ht == SIGHASH_SINGLE:
        o += ser_cs(idx + 1)
        for k in range(idx): o += struct.pack('<q', -1) + b'\x00'
        v, spk = t.vout[idx]; o += struct.pack('<q', v) + ser_cs(len(spk)) + spk
    else:
        o += ser_cs(len(t.vout))
        for v, spk in t.vout: o += struct.pack('<q', v) + ser_cs(len(spk)) + spk
    o += struct.pack('<I', t.locktime) + struct.pack('<i', hashtype if hashtype < 2**31 else hashtype - 2**32)
    return dsha(o)
def sighash_v0(t, idx, scriptcode, hashtype, amount):
    ht = hashtype & 0x1f; acp = bool(hashtype & ANYONECANPAY)
    z = b'\x00'*32
    hp = z if acp else dsha(b''.join(h + struct.pack('<I', pi) for h, pi, _, _ in t.vin))
    hs = z if (acp or ht in (SIGHASH_SINGLE, SIGHASH_NONE)) else dsha(b''.join(struct.pack('<I', seq) for *_, seq in t.vin))
    if ht not in (SIGHASH_SINGLE, SIGHASH_NONE): ho = dsha(b''.join(struct.pack('<q', v) + ser_cs(len(s)) + s for v, s in t.vout))
    elif ht == SIGHASH_SINGLE and idx < len(t.vout):
        v, s = t.vout[idx]; ho = dsha(struct.pack('<q', v) + ser_cs(len(s)) + s)
    else: ho = z
    h, pi, _, seq = t.vin[idx]
    o = struct.pack('<i', t.version) + hp + hs + h + struct.pack('<I', pi) + ser_cs(len(scriptcode)) + scriptcode + struct.pack('<q', amount) + struct.pack('<I', seq) + ho + struct.pack('<I', t.locktime) + struct.pack('<I', hashtype & 0xffffffff)
    return dsha(o)
def sighash_taproot(t, idx, hashtype, spent, ext_flag=0, annex=None, leaf_hash=None, codesep=0xffffffff):
    """spent: list of (amount, spk) for every input. returns digest or None when the hash type is invalid"""
    if not (hashtype <= 3 or 0x81 <= hashtype <= 0x83): return None
    out_type = SIGHASH_ALL if hashtype == 0 else hashtype & 3
    in_type = hashtype & 0x80
    o = b'\x00' + bytes([hashtype]) + struct.pack('<i', t.version) + struct.pack('<I', t.locktime)
    if in_type != ANYONECANPAY:
        o += sha256(b''.join(h + struct.pack('<I', pi) for h, pi, _, _ in t.vin))
        o += sha256(b''.join(struct.pack('<q', a) for a, _ in spent))
        o += sha256(b''.join(ser_cs(len(s)) + s for _, s in spent))
        o += sha256(b''.join(struct.pack('<I', seq) for *_, seq in t.vin))
    if out_type == SIGHASH_ALL:
        o += sha256(b''.join(struct.pack('<q', v) + ser_cs(len(s)) + s for v, s in t.vout))
    o += bytes([ext_flag*2 + (1 if annex is not None else 0)])
    if in_type == ANYONECANPAY:
        h, pi, _, seq = t.vin[idx]; a, s = spent[idx]
        o += h + struct.pack('<I', pi) + struct.pack('<q', a) + ser_cs(len(s)) + s + struct.pack('<I', seq)
    else:
        o += struct.pack('<I', idx)
    if annex is not None: o += sha256(ser_cs(len(annex)) + annex)
    if out_type == SIGHASH_SINGLE:
        if idx >= len(t.vout): return None
        v, s = t.vout[idx]; o += sha256(struct.pack('<q', v) + ser_cs(len(s)) + s)
    if ext_flag:
        o += leaf_hash + b'\x00' + struct.pack('<I', codesep)
    return tagged("TapSighash", o)
