"""The independent signer: builds funding/spending transaction pairs for every output type and signs them
with ref.secp over the digests of ref.sighash.  Nothing here comes from /repo."""
import struct
from ref.script import *
from ref import secp, sighash, taproot, tx as rtx
from ref.tx import make_tx, ser_tx, txid, ser_cs


def rnd_sk(rng):
    return rng.randrange(1, secp.n)


def rnd_bytes(rng, n):
    return bytes(rng.randrange(256) for _ in range(n))


def spk_p2pk(pub):
    return push_only(pub) + bytes([OP_CHECKSIG])


def spk_p2pkh(pub):
    return bytes([OP_DUP, OP_HASH160, 20]) + hash160(pub) + bytes([OP_EQUALVERIFY, OP_CHECKSIG])


def spk_p2sh(redeem):
    return bytes([OP_HASH160, 20]) + hash160(redeem) + bytes([OP_EQUAL])


def spk_p2wpkh(pub):
    return bytes([OP_0, 20]) + hash160(pub)


def spk_p2wsh(script):
    return bytes([OP_0, 32]) + sha256(script)


def spk_p2tr(q32):
    return bytes([OP_1, 32]) + q32


def multisig_script(k, pubs):
    return push_num(k) + b''.join(push_only(p) for p in pubs) + push_num(len(pubs)) + bytes([OP_CHECKMULTISIG])


def funding_tx(rng, outputs, version=2):
    """a transaction creating `outputs` [(amount, spk)], spending some unrelated coin"""
    vin = [[rnd_bytes(rng, 32), rng.randrange(4), rnd_bytes(rng, rng.choice([0, 5, 70])), 0xffffffff]]
    return make_tx(version, vin, list(outputs), rng.choice([0, 0, 500000]))


def spending_tx(rng, prevouts, nout=None, version=None, locktime=None, sequences=None):
    """prevouts: [(txid32, n)] ; script sigs empty, filled in by the caller"""
    n = len(prevouts)
    if version is None:
        version = rng.choice([1, 2, 2, 2, 0, -1, 2 ** 31 - 1])
    if locktime is None:
        locktime = rng.choice([0, 0, 1, 499999999, 500000000, 0xffffffff])
    vin = []
    for i, (h, k) in enumerate(prevouts):
        seq = sequences[i] if sequences else rng.choice([0xffffffff, 0xfffffffe, 0, 1, 0x400001, 0x80000000])
        vin.append([h, k, b'', seq])
    if nout is None:
        nout = rng.choice([1, 1, 2, 3, 0])
    vout = [(rng.choice([0, 1, 546, 10 ** 8, 21 * 10 ** 14]), rng.choice([spk_p2wpkh(secp.pub_from_sec(5)), b'\x6a', b'', bytes([OP_1]) * 3])) for _ in range(nout)]
    return make_tx(version, vin, vout, locktime, wit=[[] for _ in range(n)])


def sign_ecdsa(sk, digest, hashtype, low_s=True, extra=b''):
    return secp.ecdsa_sign(sk, digest, low_s, extra) + bytes([hashtype & 0xff])


def sign_legacy(tx, idx, scriptcode, sk, hashtype=1, low_s=True):
    return sign_ecdsa(sk, sighash.sighash_legacy(tx, idx, scriptcode, hashtype), hashtype, low_s)


def sign_v0(tx, idx, scriptcode, amount, sk, hashtype=1, low_s=True):
    return sign_ecdsa(sk, sighash.sighash_v0(tx, idx, scriptcode, hashtype, amount), hashtype, low_s)


def sign_schnorr(sk, digest, hashtype=0, aux=b'\x00' * 32):
    s = secp.schnorr_sign(sk, digest, aux)
    return s if hashtype == 0 else s + bytes([hashtype])


def tweak_seckey(sk, internal32, root):
    """BIP341 taproot_tweak_seckey"""
    P = secp.aff(secp.jmul(secp.G, sk))
    d = sk if P[1] % 2 == 0 else secp.n - sk
    t = int.from_bytes(taproot.taptweak(internal32, root), 'big')
    return (d + t) % secp.n
