"""BIP341: TapLeaf / TapBranch / TapTweak, control blocks, commitment verification, a tree builder."""
from ref.sighash import tagged
from ref.tx import ser_cs
from ref import secp

LEAF_TAPSCRIPT = 0xc0
CONTROL_BASE = 33
CONTROL_NODE = 32
CONTROL_MAX_NODES = 128


def tapleaf_hash(script, leaf_version=LEAF_TAPSCRIPT):
    return tagged("TapLeaf", bytes([leaf_version]) + ser_cs(len(script)) + script)


def tapbranch(a, b):
    return tagged("TapBranch", a + b if a < b else b + a)


def taptweak(internal32, root):
    return tagged("TapTweak", internal32 + (root or b''))


def merkle_root_steps(control, script):
    """every intermediate value of the BIP341 fold: [leaf hash, after node 0, after node 1, ...]"""
    k = tapleaf_hash(script, control[0] & 0xfe)
    out = [k]
    m = (len(control) - CONTROL_BASE) // CONTROL_NODE
    for j in range(m):
        e = control[CONTROL_BASE + 32 * j:CONTROL_BASE + 32 * (j + 1)]
        k = tapbranch(k, e)
        out.append(k)
    return out


def control_size_ok(control):
    return CONTROL_BASE <= len(control) <= CONTROL_BASE + CONTROL_NODE * CONTROL_MAX_NODES and (len(control) - CONTROL_BASE) % CONTROL_NODE == 0


def verify_commitment(control, program, script):
    """BIP341 script-path rule. control must have a valid size (checked by the caller)."""
    if not control_size_ok(control) or len(program) != 32:
        return False
    k = merkle_root_steps(control, script)[-1]
    p32 = control[1:33]
    t = taptweak(p32, k)
    r = secp.xonly_tweak_add(p32, t)
    if r is None:
        return False
    q, parity = r
    return q == program and parity == (control[0] & 1)


def output_key(internal32, root):
    r = secp.xonly_tweak_add(internal32, taptweak(internal32, root))
    return r   # (q32, parity) or None


class Tree:
    """a binary tree over leaf scripts given as nested tuples/lists, e.g. ((s0, s1), s2)"""

    def __init__(self, shape, leaf_version=LEAF_TAPSCRIPT):
        self.paths = {}   # script index in traversal order -> (script, [sibling hashes leaf->root])
        self.leaf_version = leaf_version
        self._n = 0
        self.root = self._build(shape)

    def _build(self, node):
        if isinstance(node, (bytes, bytearray)):
            h = tapleaf_hash(bytes(node), self.leaf_version)
            idx = self._n
            self._n += 1
            self.paths[idx] = (bytes(node), [])
            self._last = [idx]
            return h
        l, r = node
        hl = self._build(l)
        li = self._last
        hr = self._build(r)
        ri = self._last
        for i in li:
            self.paths[i][1].append(hr)
        for i in ri:
            self.paths[i][1].append(hl)
        self._last = li + ri
        return tapbranch(hl, hr)

    def control(self, idx, internal32, parity):
        script, path = self.paths[idx]
        return bytes([self.leaf_version | parity]) + internal32 + b''.join(path)
