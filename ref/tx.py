"""Transaction (de)serialisation (legacy + BIP144), txid/wtxid, compact size."""
import struct, hashlib


def sha256(b):
    return hashlib.sha256(b).digest()


def dsha(b):
    return sha256(sha256(b))

def ser_cs(v):
    if v < 253: return bytes([v])
    if v <= 0xffff: return b'\xfd' + struct.pack('<H', v)
    if v <= 0xffffffff: return b'\xfe' + struct.pack('<I', v)
    return b'\xff' + struct.pack('<Q', v)
class Rd:
    def __init__(s, b): s.b = b; s.i = 0
    def take(s, k):
        if s.i + k > len(s.b): raise ValueError("truncated")
        r = s.b[s.i:s.i+k]; s.i += k; return r
    def cs(s):
        f = s.take(1)[0]
        if f < 253: return f
        if f == 253:
            v = struct.unpack('<H', s.take(2))[0]
            if v < 253: raise ValueError("non-canonical")
            return v
        if f == 254:
            v = struct.unpack('<I', s.take(4))[0]
            if v < 0x10000: raise ValueError("non-canonical")
            return v
        v = struct.unpack('<Q', s.take(8))[0]
        if v < 0x100000000: raise ValueError("non-canonical")
        return v
class Tx:
    pass
def parse_tx(b):
    r = Rd(b); t = Tx()
    t.version = struct.unpack('<i', r.take(4))[0]
    def vin():
        k = r.cs(); out = []
        for _ in range(k):
            h = r.take(32); idx = struct.unpack('<I', r.take(4))[0]; ss = r.take(r.cs()); seq = struct.unpack('<I', r.take(4))[0]
            out.append([h, idx, ss, seq])
        return out
    def vout():
        k = r.cs(); out = []
        for _ in range(k):
            v = struct.unpack('<q', r.take(8))[0]; spk = r.take(r.cs()); out.append((v, spk))
        return out
    t.vin = vin(); flags = 0; t.wit = None
    if not t.vin:
        flags = r.take(1)[0]
        if flags != 0:
            t.vin = vin(); t.vout = vout()
        else: t.vout = []
    else:
        t.vout = vout()
    if flags & 1:
        flags ^= 1; t.wit = []
        for _ in t.vin:
            t.wit.append([r.take(r.cs()) for _ in range(r.cs())])
        if not any(t.wit): raise ValueError("superfluous witness")
    if flags: raise ValueError("unknown optional data")
    t.locktime = struct.unpack('<I', r.take(4))[0]
    t.rest = b[r.i:]
    return t
def ser_tx(t, with_wit=True):
    o = struct.pack('<i', t.version)
    w = with_wit and t.wit and any(t.wit)
    if w: o += b'\x00\x01'
    o += ser_cs(len(t.vin))
    for h, idx, ss, seq in t.vin: o += h + struct.pack('<I', idx) + ser_cs(len(ss)) + ss + struct.pack('<I', seq)
    o += ser_cs(len(t.vout))
    for v, spk in t.vout: o += struct.pack('<q', v) + ser_cs(len(spk)) + spk
    if w:
        for st in t.wit:
            o += ser_cs(len(st))
            for it in st: o += ser_cs(len(it)) + it
    return o + struct.pack('<I', t.locktime)
def txid(t): return dsha(ser_tx(t, False))



def wtxid(t):
    return dsha(ser_tx(t, True))


def make_tx(version, vin, vout, locktime=0, wit=None):
    t = Tx()
    t.version = version
    t.vin = [list(v) for v in vin]
    t.vout = list(vout)
    t.locktime = locktime
    t.wit = wit
    t.rest = b''
    return t
