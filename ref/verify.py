"""Full input validation as consensus defines it (VerifyScript + witness programs v0/v1, P2SH, CLEANSTACK,
SIGPUSHONLY, WITNESS_* rules), built on ref.script.Interp.  Written from BIP16/141/143/341/342."""
from ref.script import *
from ref import script as rs
from ref import secp, sighash, taproot
from ref.tx import ser_cs

ANNEX_TAG = 0x50
LOCKTIME_THRESHOLD = 500000000
SEQ_FINAL = 0xffffffff
SEQ_DISABLE = 1 << 31
SEQ_TYPE = 1 << 22
SEQ_MASK = 0x0000ffff


class TxChecker:
    """TransactionSignatureChecker: digest + signature verification for one input"""

    def __init__(self, tx, idx, amount, spent=None, annex=None, leaf_hash=None):
        self.tx = tx
        self.idx = idx
        self.amount = amount
        self.spent = spent          # [(amount, scriptPubKey)] for every input, or None
        self.annex = annex
        self.leaf_hash = leaf_hash
        self.last_digest = None

    def check_ecdsa(self, sig, pub, scriptcode, sv):
        self.last_digest = None
        # CPubKey::IsValid(): header byte and length agree (the curve check happens at verification)
        if not pub or not ((len(pub) == 33 and pub[0] in (2, 3)) or (len(pub) == 65 and pub[0] in (4, 6, 7))):
            return False
        if not sig:
            return False
        P = secp.parse_pubkey(pub)
        ht = sig[-1]
        body = sig[:-1]
        if sv == WITNESS_V0:
            d = sighash.sighash_v0(self.tx, self.idx, scriptcode, ht, self.amount)
        else:
            d = sighash.sighash_legacy(self.tx, self.idx, scriptcode, ht)
        self.last_digest = ('e', d)
        if P is None:
            return False
        rsig = secp.parse_der_lax(body)
        if rsig is None:
            return False
        return secp.ecdsa_verify_rs(P, rsig[0], rsig[1], int.from_bytes(d, 'big'))

    def check_schnorr(self, sig, pub, sv, interp):
        self.last_digest = None
        if len(sig) not in (64, 65):
            return (False, 'SCHNORR_SIG_SIZE')
        ht = 0
        if len(sig) == 65:
            ht = sig[64]
            if ht == 0:
                return (False, 'SCHNORR_SIG_HASHTYPE')
            sig = sig[:64]
        if self.spent is None:
            self.missing_spent = True
            return (False, 'SCHNORR_SIG_HASHTYPE')
        if sv == TAPSCRIPT:
            d = sighash.sighash_taproot(self.tx, self.idx, ht, self.spent, 1, self.annex, self.leaf_hash, interp.codesep_pos)
        else:
            d = sighash.sighash_taproot(self.tx, self.idx, ht, self.spent, 0, self.annex)
        if d is None:
            return (False, 'SCHNORR_SIG_HASHTYPE')
        self.last_digest = ('s', d)
        if not secp.schnorr_verify(pub, d, sig):
            return (False, 'SCHNORR_SIG')
        return (True, None)

    def check_locktime(self, n):
        tl = self.tx.locktime
        if not ((tl < LOCKTIME_THRESHOLD and n < LOCKTIME_THRESHOLD) or (tl >= LOCKTIME_THRESHOLD and n >= LOCKTIME_THRESHOLD)):
            return False
        if n > tl:
            return False
        if self.tx.vin[self.idx][3] == SEQ_FINAL:
            return False
        return True

    def check_sequence(self, n):
        seq = self.tx.vin[self.idx][3]
        if (self.tx.version & 0xffffffff) < 2:
            return False
        if seq & SEQ_DISABLE:
            return False
        mask = SEQ_TYPE | SEQ_MASK
        a = seq & mask
        b = n & mask
        if not ((a < SEQ_TYPE and b < SEQ_TYPE) or (a >= SEQ_TYPE and b >= SEQ_TYPE)):
            return False
        if b > a:
            return False
        return True


def eval_script(stack, script, flags, sv, checker, weight=None):
    """EvalScript: returns (ok, err, interp)"""
    if sv in (BASE, WITNESS_V0) and len(script) > MAX_SCRIPT_SIZE:
        return (False, 'SCRIPT_SIZE', None)
    if sv == TAPSCRIPT and len(stack) > MAX_STACK_SIZE:
        return (False, 'STACK_SIZE', None)
    it = Interp(script, stack, flags, sv, checker, weight=weight)
    try:
        while not it.at_end():
            it.step()
    except ScriptFail as e:
        return (False, e.code, it)
    except NumErr:
        return (False, 'UNKNOWN_ERROR', it)
    if it.vf:
        return (False, 'UNBALANCED_CONDITIONAL', it)
    return (True, None, it)


def witness_program(spk):
    """(version, program) or None"""
    if len(spk) < 4 or len(spk) > 42:
        return None
    if spk[0] != OP_0 and not (OP_1 <= spk[0] <= OP_16):
        return None
    if spk[1] + 2 != len(spk):
        return None
    return (0 if spk[0] == OP_0 else spk[0] - OP_1 + 1, spk[2:])


def exec_witness_script(stack, script, flags, sv, checker, weight=None):
    if sv == TAPSCRIPT:
        # OP_SUCCESSx pre-scan
        pc = 0
        while pc < len(script):
            r = get_op(script, pc)
            if r is None:
                return (False, 'BAD_OPCODE')
            if is_op_success(r[0]):
                if flags & F["DISCOURAGE_OP_SUCCESS"]:
                    return (False, 'DISCOURAGE_OP_SUCCESS')
                return (True, None)
            pc = r[2]
        if len(stack) > MAX_STACK_SIZE:
            return (False, 'STACK_SIZE')
    for it in stack:
        if len(it) > MAX_SCRIPT_ELEMENT_SIZE:
            return (False, 'PUSH_SIZE')
    ok, err, interp = eval_script(list(stack), script, flags, sv, checker, weight)
    if not ok:
        return (False, err)
    st = interp.stack
    if len(st) != 1:
        return (False, 'CLEANSTACK')
    if not cast_bool(st[-1]):
        return (False, 'EVAL_FALSE')
    return (True, None)


def witness_serialized_size(wit):
    return len(ser_cs(len(wit))) + sum(len(ser_cs(len(x))) + len(x) for x in wit)


def verify_witness_program(wit, version, program, flags, tx, idx, amount, spent, is_p2sh):
    stack = list(wit)
    if version == 0:
        checker = TxChecker(tx, idx, amount, spent)
        if len(program) == 32:
            if not stack:
                return (False, 'WITNESS_PROGRAM_WITNESS_EMPTY')
            script = stack.pop()
            if sha256(script) != program:
                return (False, 'WITNESS_PROGRAM_MISMATCH')
            return exec_witness_script(stack, script, flags, WITNESS_V0, checker)
        if len(program) == 20:
            if len(stack) != 2:
                return (False, 'WITNESS_PROGRAM_MISMATCH')
            script = bytes([OP_DUP, OP_HASH160, 20]) + program + bytes([OP_EQUALVERIFY, OP_CHECKSIG])
            return exec_witness_script(stack, script, flags, WITNESS_V0, checker)
        return (False, 'WITNESS_PROGRAM_WRONG_LENGTH')
    if version == 1 and len(program) == 32 and not is_p2sh:
        if not flags & F["TAPROOT"]:
            return (True, None)
        if not stack:
            return (False, 'WITNESS_PROGRAM_WITNESS_EMPTY')
        annex = None
        if len(stack) >= 2 and stack[-1] and stack[-1][0] == ANNEX_TAG:
            annex = stack.pop()
        if len(stack) == 1:
            checker = TxChecker(tx, idx, amount, spent, annex=annex)
            ok, err = checker.check_schnorr(stack[0], program, TAPROOT, None)
            return (ok, err)
        control = stack.pop()
        script = stack.pop()
        if not taproot.control_size_ok(control):
            return (False, 'TAPROOT_WRONG_CONTROL_SIZE')
        leaf = taproot.tapleaf_hash(script, control[0] & 0xfe)
        if not taproot.verify_commitment(control, program, script):
            return (False, 'WITNESS_PROGRAM_MISMATCH')
        if control[0] & 0xfe == taproot.LEAF_TAPSCRIPT:
            checker = TxChecker(tx, idx, amount, spent, annex=annex, leaf_hash=leaf)
            weight = witness_serialized_size(wit) + VALIDATION_WEIGHT_OFFSET
            return exec_witness_script(stack, script, flags, TAPSCRIPT, checker, weight)
        if flags & F["DISCOURAGE_UPGRADABLE_TAPROOT_VERSION"]:
            return (False, 'DISCOURAGE_UPGRADABLE_TAPROOT_VERSION')
        return (True, None)
    if flags & F["DISCOURAGE_UPGRADABLE_WITNESS_PROGRAM"]:
        return (False, 'DISCOURAGE_UPGRADABLE_WITNESS_PROGRAM')
    return (True, None)


def verify_input(tx, idx, spk, amount, flags, spent=None):
    """VerifyScript for input idx of tx spending (amount, spk). spent = [(amount, spk)] for all inputs (taproot)."""
    script_sig = tx.vin[idx][2]
    wit = (tx.wit[idx] if tx.wit else []) or []
    if spent is None and len(tx.vin) == 1:
        spent = [(amount, spk)]
    checker = TxChecker(tx, idx, amount, spent)
    if flags & F["SIGPUSHONLY"] and not is_push_only(script_sig):
        return (False, 'SIG_PUSHONLY')
    ok, err, it = eval_script([], script_sig, flags, BASE, checker)
    if not ok:
        return (False, err)
    stack = it.stack
    stack_copy = list(stack) if flags & F["P2SH"] else None
    ok, err, it = eval_script(list(stack), spk, flags, BASE, checker)
    if not ok:
        return (False, err)
    stack = it.stack
    if not stack or not cast_bool(stack[-1]):
        return (False, 'EVAL_FALSE')
    had_witness = False
    if flags & F["WITNESS"]:
        wp = witness_program(spk)
        if wp:
            had_witness = True
            if script_sig:
                return (False, 'WITNESS_MALLEATED')
            ok, err = verify_witness_program(wit, wp[0], wp[1], flags, tx, idx, amount, spent, False)
            if not ok:
                return (False, err)
            stack = stack[:1]
    if flags & F["P2SH"] and is_p2sh(spk):
        if not is_push_only(script_sig):
            return (False, 'SIG_PUSHONLY')
        stack = stack_copy
        assert stack
        redeem = stack.pop()
        ok, err, it = eval_script(list(stack), redeem, flags, BASE, checker)
        if not ok:
            return (False, err)
        stack = it.stack
        if not stack or not cast_bool(stack[-1]):
            return (False, 'EVAL_FALSE')
        if flags & F["WITNESS"]:
            wp = witness_program(redeem)
            if wp:
                had_witness = True
                if script_sig != push_only(redeem):
                    return (False, 'WITNESS_MALLEATED_P2SH')
                ok, err = verify_witness_program(wit, wp[0], wp[1], flags, tx, idx, amount, spent, True)
                if not ok:
                    return (False, err)
                stack = stack[:1]
    if flags & F["CLEANSTACK"]:
        assert flags & F["P2SH"] and flags & F["WITNESS"]
        if len(stack) != 1:
            return (False, 'CLEANSTACK')
    if flags & F["WITNESS"]:
        if not had_witness and wit:
            return (False, 'WITNESS_UNEXPECTED')
    return (True, None)
