#!/usr/bin/env python3
"""Audit tool (no verdicts): which lines of the anchored sources do the quick-tier workloads of all checks reach?

usage: tools/coverage_audit.py [--tier quick] [Cnn ...]
Builds the tree with --coverage (VERIF_COVERAGE=1 makes every check use that build), runs the checks with evidence
redirected to a scratch directory, runs gcov and writes coverage/AUDIT.md: per file the line coverage and the list of
unreached line ranges (to find generator blind spots).
"""
import sys, os, subprocess, glob, re, shutil, tempfile
VERIF = os.path.dirname(os.path.dirname(os.path.abspath(__file__)))
sys.path.insert(0, VERIF)
from vf import build as vbuild

FILES = ['script/interpreter.cpp', 'debugger/interpreter.cpp', 'debugger/script.cpp', 'instance.cpp', 'functions.cpp', 'value.cpp', 'btcdeb.cpp', 'btcc.cpp', 'tap.cpp',
         'script/script.cpp', 'primitives/transaction.cpp', 'pubkey.cpp', 'bech32.cpp', 'base58.cpp', 'kerl/kerl.c']
HEADERS = ['value.h', 'script/script.h', 'cliargs.h', 'debugger/interpreter.h', 'instance.h', 'datasets.h']


def main():
    tier = 'quick'
    props = []
    a = sys.argv[1:]
    i = 0
    while i < len(a):
        if a[i] == '--tier':
            tier = a[i + 1]; i += 2
        else:
            props.append(a[i]); i += 1
    props = props or ['C%02d' % k for k in range(1, 19)]
    os.environ['VERIF_COVERAGE'] = '1'
    out = vbuild.build('asan')
    for f in glob.glob(os.path.join(out, '*.gcda')):
        os.remove(f)
    scratch = tempfile.mkdtemp(prefix='vf-cov-', dir='/var/tmp')
    try:
        for p in props:
            r = subprocess.run([os.path.join(VERIF, 'check'), p, '--tier', tier], env=dict(os.environ, VERIF_OUT=scratch), cwd=VERIF, capture_output=True, text=True, stdin=subprocess.DEVNULL)
            print(p, 'rc=%d' % r.returncode, (r.stdout.strip().splitlines() or [''])[-1][:150], flush=True)
        gdir = os.path.join(scratch, 'gcov')
        os.makedirs(gdir)
        repo = vbuild.repo()
        percov = {}
        for f in FILES + ['H_vharness.cpp']:
            o = os.path.join(out, f.replace('/', '_') + '.o')
            if not os.path.exists(o.replace('.o', '.gcda')):
                continue
            subprocess.run(['gcov', '-p', '-o', out, o], cwd=gdir, capture_output=True, text=True)
        # merge per source file: a line is covered if any translation unit executed it
        want = {os.path.join(repo, f): f for f in FILES + HEADERS}
        lines = {}
        for g in glob.glob(os.path.join(gdir, '*.gcov')):
            src = None
            for ln in open(g, errors='replace'):
                m = re.match(r'\s*([^:]+):\s*(\d+):(.*)', ln)
                if not m:
                    continue
                cnt, no, text = m.group(1).strip(), int(m.group(2)), m.group(3)
                if no == 0:
                    if text.startswith('Source:'):
                        src = os.path.normpath(os.path.join(repo, text[7:])) if not os.path.isabs(text[7:]) else os.path.normpath(text[7:])
                    continue
                if src not in want or cnt == '-':
                    continue
                d = lines.setdefault(want[src], {})
                hit = cnt not in ('#####', '=====')
                d[no] = d.get(no, False) or hit
        os.makedirs(os.path.join(VERIF, 'coverage'), exist_ok=True)
        with open(os.path.join(VERIF, 'coverage', 'AUDIT.md'), 'w') as fh:
            fh.write('# Coverage audit of the %s-tier workloads (all checks, --coverage build; audit only, no verdicts)\n\n' % tier)
            fh.write('checks run: %s\n\n| file | executable lines | reached | %% |\n|---|---|---|---|\n' % ' '.join(props))
            for f in FILES + HEADERS:
                d = lines.get(f)
                if not d:
                    continue
                tot, hit = len(d), sum(1 for v in d.values() if v)
                fh.write('| %s | %d | %d | %.1f |\n' % (f, tot, hit, 100.0 * hit / max(1, tot)))
            fh.write('\n## Unreached lines\n')
            for f in FILES + HEADERS:
                d = lines.get(f)
                if not d:
                    continue
                miss = sorted(n for n, v in d.items() if not v)
                rngs = []
                for n in miss:
                    if rngs and n <= rngs[-1][1] + 2:
                        rngs[-1][1] = n
                    else:
                        rngs.append([n, n])
                fh.write('\n### %s\n%s\n' % (f, ', '.join('%d' % a if a == b else '%d-%d' % (a, b) for a, b in rngs) or '(none)'))
        print(open(os.path.join(VERIF, 'coverage', 'AUDIT.md')).read()[:3000])
    finally:
        shutil.rmtree(scratch, ignore_errors=True)
    return 0


if __name__ == '__main__':
    sys.exit(main())
