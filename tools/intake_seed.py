#!/usr/bin/env python3
"""Take a seeded change produced by a sub-agent, confirm it independently, and file it under /verif/seeded/<id>/.

usage: tools/intake_seed.py <Cnn> <src dir with patch.diff demo.* meta.txt> <id-suffix>

Confirms in a scratch worktree (outside /repo and /verif, removed afterwards):
  * the patch applies to HEAD, the tree builds with `make`, `./test-btcdeb` passes,
  * the demonstration FAILS with the change and PASSES without it.
Then writes seeded/<Cnn>-<suffix>/{patch.diff, demo.*, meta.json, agent-notes.txt}.
"""
import sys, os, subprocess, shutil, json, glob, tempfile

VERIF = os.path.dirname(os.path.dirname(os.path.abspath(__file__)))


def sh(cmd, cwd=None, timeout=1800):
    r = subprocess.run(cmd, shell=True, cwd=cwd, capture_output=True, text=True, timeout=timeout)
    return r.returncode, (r.stdout + r.stderr)


def run_demo(demo, tools, cwd):
    if demo.endswith('.py'):
        return sh('python3 %s %s' % (demo, tools), cwd=cwd, timeout=900)
    if demo.endswith('.sh'):
        return sh('bash %s %s' % (demo, tools), cwd=cwd, timeout=900)
    return (2, 'unknown demo type')


def main():
    prop, src, suffix = sys.argv[1], sys.argv[2], sys.argv[3]
    patch = os.path.join(src, 'patch.diff')
    demos = [f for f in sorted(os.listdir(src)) if f.startswith('demo.') and f.endswith(('.sh', '.py'))]
    if not os.path.exists(patch) or not demos:
        print('missing patch.diff or demo.{sh,py} in', src)
        return 2
    demo = demos[0]
    wt = tempfile.mkdtemp(prefix='vf-intake-', dir='/var/tmp')
    os.rmdir(wt)
    log = {}
    try:
        subprocess.run(['git', '-C', '/repo', 'worktree', 'add', '-q', '--detach', wt, 'HEAD'], check=True)
        sh('rsync -a --exclude .git --ignore-existing /repo/ %s/' % wt)
        work = os.path.join(wt, '_demo')
        shutil.copytree(src, work)
        # clean tree first
        rc, out = sh('make -j16 2>&1 | tail -2 && ./test-btcdeb | tail -2', cwd=wt)
        log['clean_tests'] = 'All tests passed' in out
        rc_clean, out_clean = run_demo(os.path.join(work, demo), wt, work)
        log['demo_on_clean'] = rc_clean
        rc, out = sh('git apply %s' % os.path.abspath(patch), cwd=wt)
        if rc != 0:
            print('patch does not apply:', out)
            return 1
        rc, out = sh('make -j16 2>&1 | tail -3 && ./test-btcdeb | tail -2', cwd=wt)
        log['mutant_builds_and_tests_pass'] = 'All tests passed' in out
        rc_mut, out_mut = run_demo(os.path.join(work, demo), wt, work)
        log['demo_on_mutant'] = rc_mut
        log['demo_output_on_mutant'] = out_mut[-600:]
        files = subprocess.run(['git', '-C', wt, 'diff', '--stat'], capture_output=True, text=True).stdout
        log['diffstat'] = files.strip().splitlines()[-1] if files.strip() else ''
    finally:
        subprocess.run(['git', '-C', '/repo', 'worktree', 'remove', '--force', wt])
        shutil.rmtree(wt, ignore_errors=True)
        subprocess.run(['git', '-C', '/repo', 'worktree', 'prune'])
    ok = log.get('clean_tests') and log.get('mutant_builds_and_tests_pass') and log.get('demo_on_clean') == 0 and log.get('demo_on_mutant') not in (0, None)
    print(json.dumps(log, indent=1))
    if not ok:
        print('NOT CONFIRMED - not filed')
        return 1
    dst = os.path.join(VERIF, 'seeded', '%s-%s' % (prop, suffix))
    os.makedirs(dst, exist_ok=True)
    shutil.copy(patch, os.path.join(dst, 'patch.diff'))
    for f in os.listdir(src):
        if f not in ('patch.diff', 'meta.txt') and os.path.isfile(os.path.join(src, f)):
            shutil.copy(os.path.join(src, f), os.path.join(dst, f))
    notes = os.path.join(src, 'meta.txt')
    if os.path.exists(notes):
        shutil.copy(notes, os.path.join(dst, 'agent-notes.txt'))
    head = subprocess.run(['git', '-C', '/repo', 'rev-parse', '--short', 'HEAD'], capture_output=True, text=True).stdout.strip()
    meta = {
        'property': prop,
        'origin': 'sub-agent given only the property text and a scratch worktree of /repo',
        'base_commit': head,
        'needs_to_manifest': open(notes).read()[:1500] if os.path.exists(notes) else '',
        'confirmed': {'existing_tests_pass_with_change': True, 'demo_passes_on_clean_tree': True, 'demo_fails_with_change': True,
                      'how': 'tools/intake_seed.py: scratch worktree + make + ./test-btcdeb + %s <tools dir> on both trees' % demo, 'diffstat': log.get('diffstat')},
        'checks': {},
    }
    with open(os.path.join(dst, 'meta.json'), 'w') as fh:
        json.dump(meta, fh, indent=1)
    print('FILED', dst)
    return 0


if __name__ == '__main__':
    sys.exit(main())
