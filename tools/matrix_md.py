#!/usr/bin/env python3
"""Write seeded/MATRIX.md from the verdicts recorded in seeded/*/meta.json (by tools/seed_matrix.py / run by hand)."""
import os, json, glob
VERIF = os.path.dirname(os.path.dirname(os.path.abspath(__file__)))
rows = []
for mp in sorted(glob.glob(os.path.join(VERIF, 'seeded', 'C*', 'meta.json'))):
    m = json.load(open(mp))
    sid = os.path.basename(os.path.dirname(mp))
    need = ' '.join((m.get('needs_to_manifest') or '').split())
    for prop, runs in sorted((m.get('checks') or {}).items()):
        for run, v in sorted(runs.items()):
            rows.append((sid, prop, run, v.get('verdict'), ', '.join(v.get('keys', [])[:2])))
with open(os.path.join(VERIF, 'seeded', 'MATRIX.md'), 'w') as fh:
    fh.write('# Seeded changes x checks (last recorded verdicts; regenerate with tools/seed_matrix.py && tools/matrix_md.py)\n\n')
    fh.write('| seeded change | check | run | verdict | first violation keys |\n|---|---|---|---|---|\n')
    for r in rows:
        fh.write('| %s | %s | %s | %s | %s |\n' % r)
    caught = sum(1 for r in rows if r[3] == 'CAUGHT' and r[1] == r[0][:3])
    own = sum(1 for r in rows if r[1] == r[0][:3])
    fh.write('\n%d of %d seeded changes are caught by the quick check of their own property.\n' % (caught, own))
print(open(os.path.join(VERIF, 'seeded', 'MATRIX.md')).read()[-300:])
