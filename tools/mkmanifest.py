#!/usr/bin/env python3
"""Regenerates /verif/MANIFEST.json from the table below (single source of truth)."""
import json, os, subprocess, sys
here = os.path.dirname(os.path.dirname(os.path.abspath(__file__)))

TB = 'g++/gcc 12 + ASan/UBSan runtimes; Python 3.11 stdlib; the reference models under /verif/ref (anchored by `./check selftest` on the doc/txs chain data and published vectors)'

CHECKS = {
    'C01': dict(
        technique='runtime monitoring: lock-step reference-model monitor over Instance::step() traces (ASan+UBSan build)',
        text='Exploration: every generated (script, stack, flags, sigversion) is executed by the real Instance::step()/ContinueScript under ASan+UBSan while an independent '
             'step-wise Bitcoin Script interpreter is advanced in lock-step; stack, alt stack, condition stack, op count after every operation and the outcome/error/failing op are compared. '
             'Exhaustive over all 1-op and 2-op scripts of the complete opcode alphabet (thorough), model-steered deep scripts, byte-level mutations for the refusal clause. Held on the executions observed, not a proof.',
        note='trusted: ref/script.py (written from the BIPs, anchored on chain data), the native harness only records public fields of Instance/InterpreterEnv; signature opcodes are covered by C02',
        ref='5 C01'),
    'C02': dict(
        technique='runtime monitoring: lock-step reference-model monitor with transaction context; digests and multisig matching observed through captured log lines (ASan+UBSan build)',
        text='Exploration: an independent signer builds transactions (1..4 inputs, all hash-type bytes, code separators, annex, FindAndDelete, multisig in/out of order, tapscript CHECKSIGADD chains and budgets) and signs them; '
             'the real interpreter is stepped with that context and compared after every operation with the reference interpreter using reference ECDSA/BIP340 verification over reference legacy/BIP143/BIP341-342 digests; '
             'the digest each signature opcode actually computed and the per-signature accept/reject sequence of CHECKMULTISIG are compared as well; every corruption must be rejected with the error the active flags select. A third of the sessions hover (every step taken, taken back, taken again). A session stage runs taproot (budget incl. annex, annex / leaf commitments) and mixed legacy / segwit-v0 scenarios through real --tx/--txin set-up.',
        note='trusted: ref/secp.py, ref/sighash.py, ref/verify.py (anchored on the six doc/txs chain pairs and BIP340 vector 0); Schnorr contexts are single-input (known finding for multi-input)',
        ref='5 C02'),
    'C03': dict(
        technique='runtime monitoring: scenario-matrix monitor comparing --tx/--txin sessions (native harness + real btcdeb binary) with an independent implementation of consensus input validation (ASan+UBSan build)',
        text='Exploration over a scenario matrix with stable ids: 11 output types x ~10 satisfactions each (valid and invalid) x input position / funding output / explicit, implicit and wrong selection x flag modification; '
             'pairs are synthesised and signed by the independent signer, the six doc/txs chain pairs are always included. The session (configure_tx_txin + setup + run to the end; one third also through the real binary) must give the verdict of '
             'ref.verify.verify_input, select the right input/output/amount and refuse wrong selections.',
        note='trusted: ref/verify.py + ref/sign.py (anchored on doc/txs); btcdeb verdict read leniently as the property words it; scenario-keyed known findings in known_findings.txt',
        ref='5 C03'),
    'C04': dict(
        technique='runtime monitoring: relational (paired-run) monitor over step/rewind command histories, complete history trees (ASan+UBSan build)',
        text='Exploration with complete enumeration of the {step,rewind} history tree to depth 10 (quick) / 12 (thorough) for short scripts and random hovering walks for long ones: after every command the complete observable state '
             '(stack, alt stack, condition stack, code-hash start, code-separator position, tapscript signature budget, op count, position, sequence number, done flag) and the signature digests actually computed afterwards '
             'must equal those of a fresh session advanced by the net number of steps; refused rewinds must change nothing.',
        note='trusted: the fresh session of the same implementation is the reference (its correctness is C01/C02); harness reads public fields of InterpreterEnv',
        ref='5 C04'),
    'C05': dict(
        technique='runtime monitoring: reference-model monitor over TaprootCommitmentEnv::Iterate() traces and commitment-phase sessions (ASan+UBSan build)',
        text='Exploration: valid commitments for every path length 0..128, both parity bits, all 128 even leaf versions and adversarial node orderings are built by an independent BIP341 implementation, then every single-field corruption of them; '
             'the real step-wise check is run and compared on the leaf hash, every intermediate TapBranch value it displays, the number of steps and the final verdict; the same through sessions with an attached commitment phase '
             '(leaf hash later used for signing) and control-block sizes 0..4225 through configure_tx_txin.',
        note='trusted: ref/taproot.py, ref/secp.py (anchored on doc/txs/p2ts and BIP340 vector 0)',
        ref='5 C05'),
    'C06': dict(
        technique='runtime monitoring: shape-agnostic reference-model monitor over the real tap binary (ASan+UBSan build), incl. pty runs and --sig round trips through btcdeb',
        text='Exploration, exhaustive over (n, spending index) for n = 1..24 (quick) / 1..64 (thorough) plus random n up to 1024: for every leaf the emitted script and control block are folded by an independent BIP341 implementation and must '
             'commit to the same output key as the bech32m-decoded address of every invocation (with and without a selected leaf) with the stated parity; the reported sighash must equal the reference BIP341/342 digest of the emitted transaction; '
             'a reference Schnorr signature passed back with --sig must give a transaction accepted by the reference validator and by btcdeb.',
        note='trusted: ref/taproot.py, ref/sighash.py, ref/secp.py, ref/codec.py; single-input transactions only',
        ref='5 C06'),
    'C07': dict(
        technique='runtime monitoring: reference-grammar monitor over Value::parse_args+serialize (harness) and the real btcc binary (ASan+UBSan build)',
        text='Exploration with exhaustive sub-domains: every opcode name in both spellings and all OP_xNN escapes, all 1-byte and all 2-byte hex literals (65,792), hex literals of every length 0..89 and the 255/256/520 boundaries, '
             'decimals at every 2^k+-2, nesting depth 0..8, multi-argument bracket groups, and random sequences of 1..40 tokens; the output must equal the bytes the reference grammar prescribes, decode back to the same operation sequence and contain only minimal pushes.',
        note='trusted: ref/asm.py (the grammar as the property states it: digit-only = decimal, hex literal = minimal-form push of exactly those bytes, bracket = push of the compiled body)',
        ref='5 C07'),
    'C08': dict(
        technique='runtime monitoring: reference-model monitor over stdout/stderr/exit status of the real btcdeb binary under pty/pipe combinations, plus paired runs across quiet/debug settings (ASan+UBSan build)',
        text='Exploration: generated scripts (incl. ones failing through C++ exceptions) and signature contexts are run by the real binary in each non-terminal stdin/stdout combination, script on stdin or argv, three times with different '
             '--quiet / --debug / DEBUG_* settings; stdout must be exactly the reference final stack (hex, bottom to top) with exit 0, or a script error on stderr with exit 1; never a signal or sanitizer report; identical results across option settings; '
             '--verbose refused; interactive stepping (scripted REPL) reaches the same final stack. Resource fault injection: five long runs over ~1000 stack items of 520 bytes on the plain build under a 3 GiB address-space ceiling must end normally with the reference result.',
        note='trusted: ref/script.py (C01); pty handling in vf/proc.py; scripts > 480 bytes only via argv; the 3 GiB ceiling is several thousand times the data involved',
        ref='5 C08'),
    'C09': dict(
        technique='runtime monitoring: set-arithmetic monitor over the flag listing / flag word of the real btcdeb (scripted REPL), behavioural probes, and a relational monotonicity monitor over chains of flag sets (ASan+UBSan build)',
        text='Exploration: (a) every single +/-NAME list, random lists with duplicates in both orders and 25 malformed lists: the resulting flag word (vdump) and the printed listing must equal standard +/- the list, malformed lists must be rejected; '
             '(b) 13 behavioural probes whose outcome must flip with exactly one flag; (c) relational: scripts, signature contexts and --tx/--txin spends are run under chains of 6..10 flag sets ordered by inclusion; success under B must imply success under every subset A.',
        note='trusted: the independent table of flag names/bits and the standard set in ref/script.py; (c) uses the implementation itself as reference (pure relation)',
        ref='5 C09'),
    'C10': dict(
        technique='runtime monitoring: lock-step reference-model monitor over Instance::step() traces of boundary scripts (ASan+UBSan build)',
        text='Exploration over a deterministic boundary matrix: for each consensus limit (520-byte push, 1000 stack+altstack items, 201 counted ops incl. multisig key counts, 20 multisig keys, 10,000-byte scripts, 4/5-byte numeric operands) '
             'and each way of reaching it, scripts at L-1, L, L+1 in BASE / WITNESS_V0 / TAPSCRIPT are executed step by step by the real interpreter and compared with the reference interpreter (same monitor as C01); '
             'plus seeded random perturbations around each boundary. The evidence contains the observed matrix cell => outcome.',
        note='trusted: ref/script.py encodes the limits as the BIPs state them; lock-time success paths need a transaction and are covered by C02/C03',
        ref='5 C10'),
    'C11': dict(
        technique='runtime monitoring: reference-model monitor with mock-signature semantics plus a relational with/without-option monitor (non-interference) over harness traces and the real binary (ASan+UBSan build)',
        text='Exploration: pair lists of 1..6 arbitrary byte-string pairs (incl. one signature for two keys, one key with two signatures); scripts over the four signature opcodes with listed, wrongly-signed, re-keyed, unlisted and mixed pairs, '
             'with/without a transaction, in base/v0/tapscript; every case is executed with and without the option: traces involving a listed key must match the reference mock semantics, traces not involving one must be identical (non-interference); '
             'a sample through the real binary; malformed lists must be rejected.',
        note='trusted: ref/script.py mock semantics (a non-listed signature for a listed key may be evaluated normally or simply fail)',
        ref='5 C11'),
    'C12': dict(
        technique='runtime monitoring: reference-decoding monitor over scripted interactive sessions of the real btcdeb (print / step echo / vdump hook) at every prefix of steps and rewinds (ASan+UBSan build)',
        text='Exploration: sessions over plain scripts, plain P2SH-template scripts and --tx/--txin spends of every output type (legacy with scriptPubKey and P2SH sections, P2WPKH preamble, P2WSH, taproot key path, tapscript with path lengths 0..3 and 128) '
             'are driven through the real command table; after every step/rewind the listing must equal the reference decoding in execution order (with section headers and one line per commitment step), the marked line must be the operation that the next step '
             'really executes (compared with the opcode/push value the implementation reports it executed), and nothing may be marked after the last operation.',
        note='trusted: ref decoding (ref/script.py), the vdump hook (reads env->opcode / vchPushValue / curr_op_seq / count); opcode spelling not prescribed',
        ref='5 C12'),
    'C13': dict(
        technique='runtime monitoring: independent-codec monitor over parse_tx / parse_transaction in the harness and btcdeb -v --tx (ASan+UBSan build)',
        text='Exploration: generated transactions (0..6 inputs/outputs, compact-size boundaries 252/253/65535/65536, witness present/absent/mixed, extreme versions and values) are parsed by the real code; all fields, txid, wtxid and both re-encodings must equal the '
             'independent codec; every truncation, trailing byte, flag-byte corruption, non-canonical or oversized compact size must be rejected with a diagnostic; amount prefixes must convert to satoshis exactly.',
        note='trusted: ref/tx.py (anchored byte-exactly on doc/txs); amounts judged for |x| < 10^18 satoshi with up to 8 fractional digits',
        ref='5 C13'),
    'C14': dict(
        technique='runtime monitoring: reference-function monitor over the real tf command implementation (harness + scripted REPL), inline forms and opcode forms (ASan+UBSan build)',
        text='Exploration: every transform of the tf table is evaluated by the real code on arguments across SHA block (55/56/64) and compact-size (252/253, 65535/65536) boundaries and compared with hashlib / independent base58, bech32(m), '
             'compact-size, 256-bit modular arithmetic, Jacobi symbol and secp256k1 implementations; encode/decode pairs must invert each other and reject single-character corruptions; the inline form and the script opcode must give the same bytes as the command.',
        note='trusted: hashlib, ref/codec.py, ref/secp.py; documented leniencies in the evidence assumptions (byte order of jacobi operands, bech32 witness version, reverse of integers not judged)',
        ref='5 C14'),
    'C15': dict(
        technique='runtime monitoring: AddressSanitizer+UndefinedBehaviorSanitizer builds of btcc/btcdeb/tap driven one process per case with structure-aware hostile input; coverage-guided mutation (libFuzzer+ASan+UBSan) of five library entry points; valgrind memcheck sample on the plain build',
        text='Exploration: hostile argument lists, option values, transaction pairs with structural lies (out-of-range prevout and select indices, hostile witness shapes), stdin variants, interactive command sequences '
             '(step/rewind/exec/tf/print, incl. exec OP_CODESEPARATOR and commands after failure / at the end) and tap invocations; a violation is a signal, sanitizer report, uncaught exception, failed assertion or repeated hang, keyed by '
             'tool:kind:innermost repository frame:entry frame so that one defect is one finding; plus a coverage-guided stage (clang libFuzzer + ASan + UBSan over Value/parse_args, fn_tf, transaction parsing, script sessions with rewinds and exec, --tx/--txin sessions, seeded with grammar-valid inputs; executions and edges covered per target are reported); plus memcheck (uninitialised reads) on a sample. All behavioural monitors C01-C14 run on the same sanitizer build and report crashes themselves.',
        note='trusted: gcc ASan/UBSan runtimes, valgrind; clang 14 libFuzzer; scripted-REPL lines are kept under 900 characters and free of ESC / 8-bit bytes (those are editing commands of GNU readline, which fed from a pipe is outside its design envelope); leaks are outside the property',
        ref='5 C15'),
    'C16': dict(
        technique='runtime monitoring: reference-model monitor over Instance::eval() at random session prefixes (ASan+UBSan build)',
        text='Exploration: exec token lists written in the grammar of scripts (opcode names, decimals up to +-2^63, hex with/without 0x incl. one-byte values, [..], inline expressions incl. throwing ones, invalid tokens) are issued at the start, middle, last operation and end of model-steered sessions; the state after exec is compared with the reference '
             'interpreter executing the compiled operations on the same pre-state (stack, alt stack, condition stack, op count), the error code if one fails (and that a script error is not reported as an exception), position/remaining script must be untouched; after a failing exec the state must be the one before the failing operation (not counted); in both cases the rest of the session is stepped and compared; 30% of the sessions issue another exec first.',
        note='trusted: ref/script.py and ref/asm.py (the token grammar, shared with C07); tapscript signature checks inside exec are judged for their budget accounting; OP_CODESEPARATOR and real signature verification inside exec are left to C15',
        ref='5 C16'),
    'C17': dict(
        technique='runtime monitoring: reference-function monitor over one-op Instance::step() traces, exhaustive over a boundary operand pool (ASan+UBSan build)',
        text='Exploration, exhaustive over a fixed boundary pool: each of the 15 re-enabled opcodes is executed by the real interpreter (allow_disabled_opcodes on/off, executed / unexecuted branch) on every operand tuple of a 44-value pool '
             '(thorough adds 2.5M random tuples); the result is compared with the string/bitwise/integer function the name denotes, invalid operands must give a script-level failure; crashes, traps and UB reports are violations.',
        note='trusted: the reference functions in ref/script.py (exec_extended); leniencies listed in the evidence assumptions',
        ref='5 C17'),
    'C18': dict(
        technique='runtime monitoring: exhaustive in-harness sweep of the script-number codec against an arithmetic definition',
        text='Thorough tier is exhaustive over the finite domain the property names: all 2^32+2^24+2^16+2^8+1 byte strings of length 0..4 (lenient decode, strict-decode verdict, re-encode) and all 2^32+1 integers of [-2^31,2^31] '
             '(encode, minimality, round trip), plus stratified 5-byte strings, int64 samples and Value()/tf int/tf hex samples. Quick tier: all strings of length <=3, 2^24 stratified 4-byte strings, boundary windows of integers (ASan+UBSan build).',
        note='trusted: the 30-line arithmetic codec ref_decode/ref_minimal/ref_encode in harness/vharness.cpp, which shares no code with script/script.h',
        ref='5 C18'),
}

NOT_YET = {}
for i in range(1, 19):
    pid = 'C%02d' % i
    if pid not in CHECKS:
        NOT_YET[pid] = 'monitor designed in DESIGN.md section 5 but not implemented yet in this round (runtime monitoring does apply)'


def main():
    hooks_commits = []
    try:
        out = subprocess.run(['git', '-C', '/repo', 'log', '--format=%H %s'], capture_output=True, text=True).stdout
        for line in out.splitlines():
            h, _, s = line.partition(' ')
            if s.startswith('verif-hook:'):
                hooks_commits.append(h)
    except Exception:
        pass
    m = {
        'version': 1,
        'setup_cmd': './check build asan plain && ./check selftest',
        'hooks': {
            'guard': 'BTCDEB_VERIF',
            'enable': 'checks compile /repo directly with g++ -DBTCDEB_VERIF (vf/build.py); hooks are additionally inert unless BTCDEB_VERIF_REPL is set in the environment',
            'baseline_off_cmd': 'cd /repo && make -j8 >/dev/null 2>&1 && ./test-btcdeb',
            'source_commits': hooks_commits,
            'add_only': True,
        },
        'engines': [
            {'name': 'vharness', 'path': 'harness/vharness.cpp', 'serves_properties': sorted(CHECKS), 'kind_free_text': 'native driver + event recorder linked against the tree objects (ASan+UBSan / plain builds)'},
            {'name': 'ref', 'path': 'ref/', 'serves_properties': sorted(CHECKS), 'kind_free_text': 'independent executable reference models (Python): script interpreter, secp256k1/ECDSA/BIP340, tx codec, sighash, taproot, codecs'},
        ],
        'checks': [],
        'not_applicable': [{'property_id': k, 'reason': v} for k, v in sorted(NOT_YET.items())],
        'notes': 'All checks: ./check <Cnn> --tier quick|thorough ; exit 0 held / 1 violation / 2 harness failure or inconclusive. Known findings: known_findings.txt.',
    }
    for pid in sorted(CHECKS):
        c = CHECKS[pid]
        m['checks'].append({
            'property_id': pid,
            'quick_cmd': './check %s --tier quick' % pid,
            'thorough_cmd': './check %s --tier thorough' % pid,
            'evidence_file': 'evidence/%s.json' % pid,
            'replay_cmd_template': './check %s --replay {path}' % pid,
            'engine': 'vharness',
            'level_claimed': {'category': c.get('category', 'exploration'), 'text': c['text'], 'design_ref': c['ref']},
            'level_note': c['note'] + '; ' + TB,
            'technique': c['technique'],
        })
    with open(os.path.join(here, 'MANIFEST.json'), 'w') as fh:
        json.dump(m, fh, indent=1)
    try:
        import jsonschema
        jsonschema.validate(m, json.load(open('/root/.vp/MANIFEST.schema.json')))
        print('MANIFEST.json valid,', len(m['checks']), 'checks')
    except ImportError:
        print('MANIFEST.json written (jsonschema not available to validate)')


if __name__ == '__main__':
    main()
