#!/usr/bin/env python3
"""Re-confirm every seeded change against the CURRENT /repo HEAD (fix: commits move the base the patches were made on).

usage: tools/reconfirm_seeds.py [<id> ...]

One scratch worktree under /var/tmp (removed afterwards).  For every seeded/<id>/:
  * the demonstration passes on the clean build,
  * patch.diff applies, the tree builds with the repository's own `make`, ./test-btcdeb passes,
  * the demonstration fails with the change.
The result is written to seeded/<id>/meta.json under "reconfirmed" (base commit, verdict) - a seed that no longer
applies or no longer manifests is reported, not silently kept.
"""
import sys, os, subprocess, shutil, json, tempfile

VERIF = os.path.dirname(os.path.dirname(os.path.abspath(__file__)))


def sh(cmd, cwd=None, timeout=3600):
    try:
        r = subprocess.run(cmd, shell=True, cwd=cwd, capture_output=True, text=True, timeout=timeout, stdin=subprocess.DEVNULL)
        return r.returncode, (r.stdout + r.stderr)
    except subprocess.TimeoutExpired:
        return 124, 'timeout'


def demo_of(d):
    for f in sorted(os.listdir(d)):
        if f.startswith('demo.') and f.endswith(('.sh', '.py')):
            return f
    return None


def run_demo(seed_dir, tools, scratch):
    work = os.path.join(scratch, 'demo_' + os.path.basename(seed_dir))
    shutil.rmtree(work, ignore_errors=True)
    shutil.copytree(seed_dir, work)
    f = demo_of(work)
    rc, out = sh(('python3 %s %s' if f.endswith('.py') else 'bash %s %s') % (os.path.join(work, f), tools), cwd=work, timeout=900)
    shutil.rmtree(work, ignore_errors=True)
    return rc, out


def main():
    ids = sys.argv[1:] or sorted(d for d in os.listdir(os.path.join(VERIF, 'seeded')) if os.path.isdir(os.path.join(VERIF, 'seeded', d)) and not d.startswith('_'))
    wt = tempfile.mkdtemp(prefix='vf-reconf-', dir='/var/tmp')
    os.rmdir(wt)
    scratch = tempfile.mkdtemp(prefix='vf-reconf-s-', dir='/var/tmp')
    head = subprocess.run(['git', '-C', '/repo', 'rev-parse', '--short', 'HEAD'], capture_output=True, text=True).stdout.strip()
    bad = 0
    try:
        subprocess.run(['git', '-C', '/repo', 'worktree', 'add', '-q', '--detach', wt, 'HEAD'], check=True)
        sh('rsync -a --exclude .git --ignore-existing /repo/ %s/' % wt)
        rc, out = sh('make -j16 2>&1 | tail -2 && ./test-btcdeb | tail -2', cwd=wt)
        if 'All tests passed' not in out:
            print('clean tree does not build/pass:', out[-500:])
            return 2
        clean = {}
        for i in ids:
            clean[i] = run_demo(os.path.join(VERIF, 'seeded', i), wt, scratch)[0]
        for i in ids:
            sd = os.path.join(VERIF, 'seeded', i)
            res = {'base_commit': head, 'demo_on_clean': clean[i]}
            rc, out = sh('git apply %s' % os.path.join(sd, 'patch.diff'), cwd=wt)
            if rc != 0:
                res['verdict'] = 'patch-does-not-apply'
            else:
                rc, out = sh('make -j16 2>&1 | tail -5 && ./test-btcdeb | tail -2', cwd=wt)
                res['tests_pass_with_change'] = 'All tests passed' in out
                if not res['tests_pass_with_change']:
                    res['verdict'] = 'does-not-build-or-tests-fail'
                    res['log'] = out[-400:]
                else:
                    rcm, outm = run_demo(sd, wt, scratch)
                    res['demo_with_change'] = rcm
                    res['verdict'] = 'confirmed' if clean[i] == 0 and rcm not in (0, 124) else 'does-not-manifest' if rcm == 0 else 'demo-fails-on-clean-tree'
                sh('git apply -R %s' % os.path.join(sd, 'patch.diff'), cwd=wt)
                sh('git checkout -- . ', cwd=wt)
            print(i, res['verdict'], flush=True)
            if res['verdict'] != 'confirmed':
                bad += 1
            mp = os.path.join(sd, 'meta.json')
            meta = json.load(open(mp))
            meta['reconfirmed'] = res
            json.dump(meta, open(mp, 'w'), indent=1)
        # leave the tree as it was built clean for the next patch: make picks up the reverted files by timestamp
    finally:
        subprocess.run(['git', '-C', '/repo', 'worktree', 'remove', '--force', wt])
        shutil.rmtree(wt, ignore_errors=True)
        shutil.rmtree(scratch, ignore_errors=True)
        subprocess.run(['git', '-C', '/repo', 'worktree', 'prune'])
    return 1 if bad else 0


if __name__ == '__main__':
    sys.exit(main())
