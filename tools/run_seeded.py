#!/usr/bin/env python3
"""Run the quick (or thorough) check of a property against a seeded change.

usage: tools/run_seeded.py <seeded dir | patch.diff> [<Cnn> ...] [--tier quick|thorough] [--seed N]

A scratch worktree of /repo is created under /var/tmp, the patch applied, the checks run with VERIF_REPO pointing at
it (evidence/replay redirected to a scratch VERIF_OUT), then everything is removed again.  Prints, per check,
CAUGHT (exit 1 + VIOLATION line), MISSED (exit 0) or BROKEN (exit 2).
"""
import sys, os, subprocess, json, shutil, tempfile, time

VERIF = os.path.dirname(os.path.dirname(os.path.abspath(__file__)))


def main():
    args = [a for a in sys.argv[1:] if not a.startswith('--')]
    tier = 'quick'
    seed = os.environ.get('VERIF_SEED', '1')
    for i, a in enumerate(sys.argv):
        if a == '--tier':
            tier = sys.argv[i + 1]
            args.remove(tier) if tier in args else None
        if a == '--seed':
            seed = sys.argv[i + 1]
            args.remove(seed) if seed in args else None
    target = args[0]
    patch = target if target.endswith('.diff') else os.path.join(target, 'patch.diff')
    props = args[1:]
    if not props:
        meta = os.path.join(os.path.dirname(patch), 'meta.json')
        props = [json.load(open(meta))['property']] if os.path.exists(meta) else []
    if not props:
        print('no property given')
        return 2
    wt = tempfile.mkdtemp(prefix='vf-seeded-', dir='/var/tmp')
    out = tempfile.mkdtemp(prefix='vf-seeded-out-', dir='/var/tmp')
    os.rmdir(wt)
    rc_all = 0
    try:
        subprocess.run(['git', '-C', '/repo', 'worktree', 'add', '-q', '--detach', wt, 'HEAD'], check=True)
        subprocess.run(['git', '-C', wt, 'apply', os.path.abspath(patch)], check=True)
        env = dict(os.environ, VERIF_REPO=wt, VERIF_OUT=out, VERIF_SEED=str(seed))
        for p in props:
            t0 = time.time()
            r = subprocess.run([os.path.join(VERIF, 'check'), p, '--tier', tier], env=env, cwd=VERIF, capture_output=True, text=True)
            viol = [l for l in r.stdout.splitlines() if l.startswith('VIOLATION')]
            keys = [l.strip() for l in r.stdout.splitlines() if l.strip().startswith('key=')]
            verdict = 'CAUGHT' if r.returncode == 1 and viol else 'MISSED' if r.returncode == 0 else 'BROKEN(rc=%d)' % r.returncode
            print('%s %s %s tier=%s seed=%s %.0fs %s' % (verdict, p, os.path.dirname(patch) or patch, tier, seed, time.time() - t0, ' '.join(keys[:4])))
            if verdict.startswith('BROKEN'):
                print(r.stdout[-1500:])
                print(r.stderr[-1500:])
            if verdict != 'CAUGHT':
                rc_all = 1
    finally:
        subprocess.run(['git', '-C', '/repo', 'worktree', 'remove', '--force', wt])
        shutil.rmtree(out, ignore_errors=True)
        shutil.rmtree(wt, ignore_errors=True)
        subprocess.run(['git', '-C', '/repo', 'worktree', 'prune'])
    return rc_all


if __name__ == '__main__':
    sys.exit(main())
