#!/usr/bin/env python3
"""Run the quick check of its property against every seeded change and record the verdicts.

usage: tools/seed_matrix.py [--tier quick|thorough] [--seeds 1,2,3] [<seeded dir> ...]
Writes the verdicts into seeded/<id>/meta.json ("checks") and prints the table used in DESIGN.md section 7.
"""
import sys, os, json, subprocess, glob
VERIF = os.path.dirname(os.path.dirname(os.path.abspath(__file__)))


def main():
    tier = 'quick'
    seeds = ['1']
    dirs = []
    a = sys.argv[1:]
    i = 0
    while i < len(a):
        if a[i] == '--tier':
            tier = a[i + 1]; i += 2
        elif a[i] == '--seeds':
            seeds = a[i + 1].split(','); i += 2
        else:
            dirs.append(a[i]); i += 1
    if not dirs:
        dirs = sorted(glob.glob(os.path.join(VERIF, 'seeded', '*')))
    rows = []
    for d in dirs:
        mp = os.path.join(d, 'meta.json')
        if not os.path.exists(mp):
            continue
        meta = json.load(open(mp))
        prop = meta['property']
        for sd in seeds:
            r = subprocess.run([os.path.join(VERIF, 'tools', 'run_seeded.py'), d, prop, '--tier', tier, '--seed', sd], capture_output=True, text=True)
            line = [l for l in r.stdout.splitlines() if l.startswith(('CAUGHT', 'MISSED', 'BROKEN'))]
            verdict = line[-1].split(' ')[0] if line else 'BROKEN'
            keys = [w[4:] for w in (line[-1].split(' ') if line else []) if w.startswith('key=')]
            meta.setdefault('checks', {}).setdefault(prop, {})['%s/seed%s' % (tier, sd)] = dict(verdict=verdict, keys=keys[:4])
            rows.append((os.path.basename(d.rstrip('/')), prop, tier, sd, verdict, ', '.join(keys[:2])))
            print('%-10s %s %s seed=%s %-7s %s' % rows[-1])
        with open(mp, 'w') as fh:
            json.dump(meta, fh, indent=1)
    return 0 if all(r[4] == 'CAUGHT' for r in rows) else 1


if __name__ == '__main__':
    sys.exit(main())
