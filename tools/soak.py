#!/usr/bin/env python3
"""Run every registered check at several PRNG seeds from fresh processes and report anything that is not a silent exit 0.

usage: tools/soak.py [--tier quick|thorough] [--seeds 2,3,4] [Cnn ...]
Evidence and replay files of these runs go to a scratch VERIF_OUT (the committed evidence of seed $VERIF_SEED stays).
"""
import sys, os, subprocess, json, tempfile, shutil, time
VERIF = os.path.dirname(os.path.dirname(os.path.abspath(__file__)))


def main():
    tier, seeds, props = 'quick', ['2', '3', '4'], []
    a = sys.argv[1:]
    i = 0
    while i < len(a):
        if a[i] == '--tier':
            tier = a[i + 1]; i += 2
        elif a[i] == '--seeds':
            seeds = a[i + 1].split(','); i += 2
        else:
            props.append(a[i]); i += 1
    if not props:
        props = ['C%02d' % k for k in range(1, 19)]
    out = tempfile.mkdtemp(prefix='vf-soak-', dir='/var/tmp')
    bad = 0
    try:
        for sd in seeds:
            for p in props:
                t0 = time.time()
                r = subprocess.run([os.path.join(VERIF, 'check'), p, '--tier', tier], env=dict(os.environ, VERIF_SEED=sd, VERIF_OUT=out), cwd=VERIF, capture_output=True, text=True, stdin=subprocess.DEVNULL)
                viol = [l for l in r.stdout.splitlines() if l.startswith(('VIOLATION', 'INCONCLUSIVE'))]
                status = 'ok' if r.returncode == 0 and not viol else 'ALARM rc=%d' % r.returncode
                print('%s seed=%s %s %.0fs %s' % (p, sd, status, time.time() - t0, (r.stdout.strip().splitlines() or [''])[-1][:160]), flush=True)
                if status != 'ok':
                    bad += 1
                    for l in r.stdout.splitlines():
                        if l.startswith(('VIOLATION', 'INCONCLUSIVE', '  key=', '  witness=')):
                            print('   ', l[:1200], flush=True)
                    # keep the replay files of alarms
                    dst = os.path.join(VERIF, '.cache', 'soak-alarms', '%s-seed%s' % (p, sd))
                    if os.path.isdir(os.path.join(out, 'replay', p)):
                        shutil.rmtree(dst, ignore_errors=True)
                        shutil.copytree(os.path.join(out, 'replay', p), dst)
    finally:
        shutil.rmtree(out, ignore_errors=True)
    return 1 if bad else 0


if __name__ == '__main__':
    sys.exit(main())
