"""Build the tree under test (from $VERIF_REPO, default /repo) into /verif/.cache/<hash>/<variant>.

Compiles directly with g++/gcc (never the repo's make).  Output: btcdeb, btcc, tap, vharness.
The cache key is a hash over every source file of the tree plus the harness sources and flags,
so any edit under /repo forces a rebuild.  Exit code 2 (BuildError) on failure.
"""
import hashlib, os, subprocess, sys, fcntl, shutil, time
from concurrent.futures import ThreadPoolExecutor

VERIF = os.path.dirname(os.path.dirname(os.path.abspath(__file__)))
CACHE = os.path.join(VERIF, '.cache')
GUARD = 'BTCDEB_VERIF'


def repo():
    return os.environ.get('VERIF_REPO', '/repo')


class BuildError(Exception):
    pass


LIBBITCOIN = """arith_uint256.cpp base58.cpp bech32.cpp consensus/merkle.cpp crypto/hmac_sha512.cpp
crypto/ripemd160.cpp crypto/sha1.cpp crypto/sha256.cpp crypto/sha512.cpp hash.cpp primitives/transaction.cpp
pubkey.cpp script/interpreter.cpp script/script.cpp script/script_error.cpp support/cleanse.cpp
support/lockedpool.cpp uint256.cpp util/spanparsing.cpp util/strencodings.cpp value.cpp
debugger/hash.cpp debugger/interpreter.cpp debugger/script.cpp""".split()
COMMON_TOOL = ['instance.cpp', 'functions.cpp']
SECP = ['secp256k1/src/secp256k1.c', 'secp256k1/src/precomputed_ecmult.c', 'secp256k1/src/precomputed_ecmult_gen.c']

VARIANTS = {
    'asan': ['-O1', '-g', '-fno-omit-frame-pointer', '-fsanitize=address,undefined', '-fno-sanitize-recover=all'],
    'plain': ['-O2', '-g'],
    'cov': ['-O0', '-g', '--coverage'],
    # clang + libFuzzer (gcc has no -fsanitize=fuzzer); object-size is a known false alarm on empty classes with clang 14
    'fuzz': ['-O1', '-g', '-fno-omit-frame-pointer', '-fsanitize=fuzzer-no-link,address,undefined', '-fno-sanitize-recover=all', '-fno-sanitize=object-size,vptr'],
}

SRC_EXT = ('.cpp', '.h', '.c', '.hpp')
SKIP_DIRS = {'.git', 'autom4te.cache', '.deps', '.libs', 'doc', 'ci', 'build-aux', 'sage', 'contrib', 'examples'}


def tree_hash(r):
    h = hashlib.sha256()
    files = []
    for root, dirs, fs in os.walk(r):
        dirs[:] = sorted(d for d in dirs if d not in SKIP_DIRS)
        for f in sorted(fs):
            if f.endswith(SRC_EXT):
                files.append(os.path.join(root, f))
    for p in files:
        h.update(os.path.relpath(p, r).encode())
        h.update(b'\0')
        try:
            with open(p, 'rb') as fh:
                h.update(hashlib.sha256(fh.read()).digest())
        except OSError:
            h.update(b'?')
    hd = os.path.join(VERIF, 'harness')
    for f in sorted(os.listdir(hd)):
        p = os.path.join(hd, f)
        if os.path.isfile(p):
            h.update(f.encode())
            with open(p, 'rb') as fh:
                h.update(hashlib.sha256(fh.read()).digest())
    with open(os.path.abspath(__file__), 'rb') as fh:
        h.update(hashlib.sha256(fh.read()).digest())
    return h.hexdigest()[:16]


def _run(cmd, cwd, log):
    p = subprocess.run(cmd, cwd=cwd, stdout=subprocess.PIPE, stderr=subprocess.STDOUT, text=True)
    if p.returncode != 0:
        with open(log, 'a') as fh:
            fh.write('$ ' + ' '.join(cmd) + '\n' + p.stdout + '\n')
        raise BuildError('command failed: %s\n%s' % (' '.join(cmd), p.stdout[-4000:]))
    return p.stdout


def build(variant='asan', hooks=True, quiet=False):
    """Returns the directory holding btcdeb, btcc, tap, vharness for the current tree."""
    r = repo()
    if not os.path.isdir(r):
        raise BuildError('repo %s missing' % r)
    flags = list(VARIANTS[variant])
    if hooks:
        flags.append('-D' + GUARD)
    if os.environ.get('VERIF_COVERAGE') == '1' and variant in ('asan', 'plain'):
        variant = 'cov'        # audit mode (tools/coverage_audit.py): same workloads on a --coverage build; plays no part in verdicts
        flags = VARIANTS['cov'] + ['-D' + GUARD]
    th = tree_hash(r)
    vname = variant + ('' if hooks else '-nohooks')
    out = os.path.join(CACHE, th, vname)
    os.makedirs(out, exist_ok=True)
    stamp = os.path.join(out, 'OK')
    lockf = open(os.path.join(out, '.lock'), 'w')
    fcntl.flock(lockf, fcntl.LOCK_EX)
    try:
        if os.path.exists(stamp):
            try:
                os.utime(os.path.join(CACHE, th))      # least-recently-USED pruning: a tree in use is never the oldest
            except OSError:
                pass
            return out
        t0 = time.time()
        if not quiet:
            print('[build] %s from %s -> %s' % (vname, r, out), file=sys.stderr)
        log = os.path.join(out, 'build.log')
        # generated config headers: use the tree's, else the fallback copies
        cfgdir = os.path.join(out, 'cfg')
        os.makedirs(os.path.join(cfgdir, 'config'), exist_ok=True)
        fb = os.path.join(VERIF, 'harness', 'fallback-config')
        src = os.path.join(r, 'config', 'bitcoin-config.h')
        shutil.copy(src if os.path.exists(src) else os.path.join(fb, 'bitcoin-config.h'),
                    os.path.join(cfgdir, 'config', 'bitcoin-config.h'))
        src = os.path.join(r, 'secp256k1', 'src', 'libsecp256k1-config.h')
        shutil.copy(src if os.path.exists(src) else os.path.join(fb, 'libsecp256k1-config.h'),
                    os.path.join(cfgdir, 'libsecp256k1-config.h'))
        inc = ['-I' + cfgdir, '-I' + os.path.join(cfgdir, 'config'), '-I' + r, '-I' + os.path.join(r, 'secp256k1', 'include')]
        fuzz = variant == 'fuzz'
        cxx = ['clang++' if fuzz else 'g++', '-std=gnu++17' if fuzz else '-std=c++17', '-w', '-DHAVE_CONFIG_H'] + flags + inc
        cc = ['gcc', '-w', '-DHAVE_CONFIG_H'] + ([] if fuzz else flags)
        jobs = []
        objs = {}

        def obj(name):
            return os.path.join(out, name.replace('/', '_') + '.o')

        for s in LIBBITCOIN + COMMON_TOOL + ([] if fuzz else ['btcdeb.cpp', 'btcc.cpp', 'tap.cpp']):
            jobs.append(cxx + ['-c', os.path.join(r, s), '-o', obj(s)])
        for s in (('vfuzz.cpp',) if fuzz else ('vharness.cpp',)):
            jobs.append(cxx + ['-I' + os.path.join(VERIF, 'harness'), '-c', os.path.join(VERIF, 'harness', s), '-o', obj('H_' + s)])
        for s in SECP:
            jobs.append(cc + ['-O2', '-fomit-frame-pointer', '-I' + cfgdir, '-I' + os.path.join(r, 'secp256k1'), '-I' + os.path.join(r, 'secp256k1', 'src'),
                              '-I' + os.path.join(r, 'secp256k1', 'include'), '-c', os.path.join(r, s), '-o', obj(s)])
        jobs.append(cc + ['-std=gnu99', '-I' + cfgdir, '-I' + os.path.join(cfgdir, 'config'), '-I' + r, '-I' + os.path.join(r, 'kerl'),
                          '-c', os.path.join(r, 'kerl', 'kerl.c'), '-o', obj('kerl/kerl.c')])
        with ThreadPoolExecutor(max_workers=int(os.environ.get('VERIF_JOBS', '16'))) as ex:
            futs = [ex.submit(_run, j, r, log) for j in jobs]
            for f in futs:
                f.result()
        lib = [obj(s) for s in LIBBITCOIN] + [obj(s) for s in SECP]
        tool = [obj(s) for s in COMMON_TOOL] + [obj('kerl/kerl.c')]
        link = ['g++'] + flags
        if fuzz:
            links = [['clang++', '-g', '-fsanitize=fuzzer,address,undefined', '-Wl,--wrap=exit', '-o', os.path.join(out, 'vfuzz'), obj('H_vfuzz.cpp')] + tool + lib + ['-lreadline', '-lpthread']]
        else:
          links = [
            link + ['-o', os.path.join(out, 'btcdeb'), obj('btcdeb.cpp')] + tool + lib + ['-lreadline'],
            link + ['-o', os.path.join(out, 'tap'), obj('tap.cpp')] + tool + lib + ['-lreadline'],
            link + ['-o', os.path.join(out, 'btcc'), obj('btcc.cpp')] + lib,
            link + ['-o', os.path.join(out, 'vharness'), obj('H_vharness.cpp')] + tool + lib + ['-lreadline', '-lpthread'],
          ]
        with ThreadPoolExecutor(max_workers=4) as ex:
            futs = [ex.submit(_run, j, r, log) for j in links]
            for f in futs:
                f.result()
        with open(stamp, 'w') as fh:
            fh.write('%s %s %.1fs\n' % (th, vname, time.time() - t0))
        if not quiet:
            print('[build] done in %.1fs' % (time.time() - t0), file=sys.stderr)
        _prune(keep=th)
        return out
    finally:
        fcntl.flock(lockf, fcntl.LOCK_UN)
        lockf.close()


def _prune(keep, maxdirs=16):
    """Keep the cache small: drop the oldest tree-hash directories."""
    try:
        ds = [(os.path.getmtime(os.path.join(CACHE, d)), d) for d in os.listdir(CACHE) if d != keep]
        ds.sort()
        while len(ds) > maxdirs - 1:
            _, d = ds.pop(0)
            shutil.rmtree(os.path.join(CACHE, d), ignore_errors=True)
    except OSError:
        pass


if __name__ == '__main__':
    v = sys.argv[1] if len(sys.argv) > 1 else 'asan'
    try:
        print(build(v))
    except BuildError as e:
        print('BUILD FAILED:', e, file=sys.stderr)
        sys.exit(2)
