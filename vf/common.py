"""Shared plumbing for the monitors: tiers/seeds, scratch space, harness batches, crash keys,
known-finding matching, evidence files, verdict/exit-code discipline."""
import os, sys, json, time, random, hashlib, subprocess, shutil, re, signal, tempfile, traceback, collections
import multiprocessing

VERIF = os.path.dirname(os.path.dirname(os.path.abspath(__file__)))
if VERIF not in sys.path:
    sys.path.insert(0, VERIF)
from vf import build as vbuild

SCRATCH_ROOT = os.path.join(VERIF, '.cache', 'run')
NPROC = int(os.environ.get('VERIF_JOBS', '16'))


def seed():
    try:
        return int(os.environ.get('VERIF_SEED', '1'))
    except ValueError:
        return 1


def sub_rng(*parts):
    h = hashlib.sha256(repr((seed(),) + parts).encode()).digest()
    return random.Random(int.from_bytes(h[:8], 'big'))


def scratch(tag):
    d = os.path.join(SCRATCH_ROOT, '%s-%d-%d' % (tag, os.getpid(), int(time.time() * 1000) % 100000000))
    os.makedirs(d, exist_ok=True)
    return d


def cleanup_scratch(d):
    shutil.rmtree(d, ignore_errors=True)


def san_env(logdir, extra=None):
    env = dict(os.environ)
    # exitcode=97 tells a sanitizer's own exit apart from the program calling exit(1) (gcc's UBSan does not abort)
    env['ASAN_OPTIONS'] = 'abort_on_error=1:detect_leaks=0:handle_abort=1:allocator_may_return_null=1:exitcode=97:log_path=%s/asan' % logdir
    env['UBSAN_OPTIONS'] = 'print_stacktrace=1:halt_on_error=1:abort_on_error=1:exitcode=97:log_path=%s/ubsan' % logdir
    env['TERM'] = 'dumb'
    for k in list(env):
        if k.startswith('DEBUG_') or k == 'BTCDEB_VERIF_REPL':
            del env[k]
    if extra:
        env.update(extra)
    return env


# ------------------------------------------------------------------------------------------------
# sanitizer / crash report reduction
_FRAME = re.compile(r'^\s*#(\d+)\s+0x[0-9a-f]+\s+(?:in\s+)?(.+?)\s+(\S+?):(\d+)(?::\d+)?\s*$')
_FRAME2 = re.compile(r'^\s*#(\d+)\s+0x[0-9a-f]+\s+(?:in\s+)?(\S.*?)\s+\(?(/\S+?)(?:\+0x[0-9a-f]+)?\)?')


def read_san_logs(logdir):
    out = []
    try:
        for f in sorted(os.listdir(logdir)):
            if f.startswith('asan') or f.startswith('ubsan'):
                try:
                    with open(os.path.join(logdir, f), 'r', errors='replace') as fh:
                        out.append(fh.read())
                except OSError:
                    pass
    except OSError:
        pass
    return '\n'.join(out)


def clear_san_logs(logdir):
    try:
        for f in os.listdir(logdir):
            if f.startswith('asan') or f.startswith('ubsan'):
                os.unlink(os.path.join(logdir, f))
    except OSError:
        pass


def _clean_fn(fn):
    fn = re.sub(r'\(.*', '', fn)          # drop argument lists
    fn = re.sub(r'<.*>', '', fn)
    fn = fn.replace('(anonymous namespace)::', '')
    return fn.strip()


def crash_key(tool, sig, log, stderr=''):
    """tool : kind : innermost frame inside the repo : entry frame   (line numbers stripped)"""
    text = (log or '') + '\n' + (stderr or '')
    kind = None
    m = re.search(r'ERROR: AddressSanitizer: ([A-Za-z0-9_-]+)', text)
    if m:
        kind = m.group(1)
        if kind == 'SEGV':
            kind = 'segv'
        elif kind == 'ABRT':
            kind = 'abort'
        elif kind == 'FPE':
            kind = 'fpe'
    m2 = re.search(r'runtime error: (.+)', text)
    if m2 and (kind is None or kind == 'abort'):
        msg = m2.group(1)
        msg = re.sub(r'-?\d+', 'N', msg)
        msg = re.sub(r'0x[0-9a-f]+', 'P', msg)
        kind = 'ub:' + re.sub(r'[^A-Za-z]+', '-', msg)[:60].strip('-')
    if kind == 'abort' or kind is None:
        if '__assert_fail' in text:
            kind = 'assert'
        elif 'terminate called' in text or '__cxa_throw' in text or 'std::terminate' in text or '__verbose_terminate_handler' in text:
            m3 = re.search(r"terminate called after throwing an instance of '([^']+)'", text)
            kind = 'uncaught:' + (m3.group(1) if m3 else 'exception')
        elif re.search(r'Assertion .* failed', text):
            kind = 'assert'
        elif kind is None:
            kind = 'signal-%s' % sig
    repo = vbuild.repo().rstrip('/')
    frames = []
    for line in text.splitlines():
        m = _FRAME.match(line)
        if m:
            frames.append((_clean_fn(m.group(2)), m.group(3)))
            continue
    inner = entry = None
    for fn, path in frames:
        p = os.path.realpath(path) if os.path.isabs(path) else path
        inrepo = p.startswith(repo + '/')
        if '/verif/harness' in p:
            inrepo = False
        if inrepo and 'sanitizer' not in p and '/usr/' not in p:
            if inner is None:
                inner = fn
            if fn != 'main':
                entry = fn
    if inner is None:
        inner = frames[0][0] if frames else 'unknown'
    return '%s:%s:%s:%s' % (tool, kind, inner, entry or inner)


def _read(path):
    try:
        with open(path, errors='replace') as fh:
            return fh.read()
    except OSError:
        return ''


# ------------------------------------------------------------------------------------------------
# harness batches
class HarnessCrash:
    def __init__(self, case_id, sig, log, key):
        self.case_id = case_id
        self.sig = sig
        self.log = log
        self.key = key


def run_harness_cases(bindir, cases, workdir, timeout_per_batch=600, extra_env=None):
    """cases: list of (case_id, [command lines]) ; the first command of each case must be 'N <id>'.
    Returns (events: dict id -> [lines], crashes: list of HarnessCrash, hangs: list of ids)."""
    events = collections.OrderedDict()
    crashes = []
    hangs = []
    todo = list(cases)
    logdir = os.path.join(workdir, 'san')
    os.makedirs(logdir, exist_ok=True)
    attempt = 0
    while todo:
        attempt += 1
        inf = os.path.join(workdir, 'in-%d.txt' % attempt)
        outf = os.path.join(workdir, 'ev-%d.txt' % attempt)
        with open(inf, 'w') as fh:
            for cid, lines in todo:
                fh.write('\n'.join(lines))
                fh.write('\n')
            fh.write('Q\n')
        clear_san_logs(logdir)
        env = san_env(logdir, extra_env)
        cmd = 'exec "%s" <"%s" 3>"%s" >/dev/null 2>"%s.err"' % (os.path.join(bindir, 'vharness'), inf, outf, outf)
        try:
            p = subprocess.run(['sh', '-c', cmd], env=env, cwd=workdir, timeout=timeout_per_batch)
            rc = p.returncode
        except subprocess.TimeoutExpired:
            rc = 'timeout'
        cur = None
        seen = []
        try:
            with open(outf, 'r', errors='replace') as fh:
                for line in fh:
                    line = line.rstrip('\n')
                    if line.startswith('B '):
                        cur = line[2:]
                        events[cur] = []
                        seen.append(cur)
                    elif cur is not None:
                        events[cur].append(line)
        except OSError:
            pass
        if rc == 0:
            break
        # the in-flight case is the last one that began
        ids = [c[0] for c in todo]
        if not seen:
            # died before the first case: harness failure
            err = ''
            try:
                err = open(outf + '.err', errors='replace').read()[-2000:]
            except OSError:
                pass
            raise RuntimeError('harness died before the first case rc=%s: %s %s' % (rc, err, read_san_logs(logdir)[-2000:]))
        last = seen[-1]
        idx = ids.index(last)
        if rc == 'timeout':
            hangs.append(last)
        elif isinstance(rc, int) and 0 < rc < 97 and not read_san_logs(logdir).strip() and 'runtime error' not in _read(outf + '.err') and 'Sanitizer' not in _read(outf + '.err'):
            # library code called exit(rc) (e.g. "parse error ... exit(1)"): the tool terminated by itself, not a crash
            events[last].append('EXIT %s' % rc)
            todo = todo[idx + 1:]
            continue
        else:
            log = read_san_logs(logdir)
            try:
                log += open(outf + '.err', errors='replace').read()[-4000:]
            except OSError:
                pass
            crashes.append(HarnessCrash(last, rc, log, crash_key('harness', -rc if isinstance(rc, int) and rc < 0 else rc, log)))
        events[last].append('CRASH %s' % rc)
        todo = todo[idx + 1:]
    return events, crashes, hangs


# ------------------------------------------------------------------------------------------------
# known findings
class Findings:
    def __init__(self, path=None):
        self.path = path or os.path.join(VERIF, 'known_findings.txt')
        self.findings = {}   # (property, key) -> description
        self.fixed = []
        try:
            with open(self.path) as fh:
                for line in fh:
                    line = line.strip()
                    if line.startswith('finding:'):
                        m = re.match(r'finding:\s+property=(\S+)\s+key=(\S+)\s+(.*)$', line)
                        if m:
                            self.findings[(m.group(1), m.group(2))] = m.group(3).split(' | repro:')[0].strip()
                    elif line.startswith('fixed:'):
                        self.fixed.append(line)
        except OSError:
            pass

    def match(self, prop, key):
        if (prop, key) in self.findings:
            return (key, self.findings[(prop, key)])
        # keys in the file may end with '*' (prefix match) to cover a family keyed by call site
        for (p, k), d in self.findings.items():
            if p == prop and k.endswith('*') and key.startswith(k[:-1]):
                return (k, d)
        return None


class Reporter:
    """Collects per-case verdicts; decides exit code; writes evidence and replay files."""

    def __init__(self, prop, tier, level='exploration'):
        self.prop = prop
        self.tier = tier
        self.level = level
        self.t0 = time.time()
        self.findings = Findings()
        self.known_hit = collections.OrderedDict()   # listed key -> (desc, count)
        self.violations = collections.OrderedDict()  # key -> [witness...]
        self.inconclusive = collections.Counter()
        self.evaluations = 0
        self.nontrivial = set()
        self.samples = []
        self.tables = {}
        self.notes = []

    # --- verdicts
    def violation(self, key, witness):
        m = self.findings.match(self.prop, key)
        if m:
            k, d = m
            if k not in self.known_hit:
                self.known_hit[k] = [d, 0, witness]
            self.known_hit[k][1] += 1
            return False
        self.violations.setdefault(key, [])
        if len(self.violations[key]) < 3:
            self.violations[key].append(witness)
        return True

    def inconc(self, why, n=1):
        self.inconclusive[why] += n

    def count(self, table, key, n=1):
        self.tables.setdefault(table, collections.Counter())[key] += n

    def sample(self, s, limit=8):
        if len(self.samples) < limit:
            self.samples.append(s)

    def merge(self, part):
        """merge a worker's partial result (dict produced by Partial.dump())"""
        self.evaluations += part['evaluations']
        self.nontrivial.update(part['nontrivial'])
        for k, w in part['violations']:
            self.violation(k, w)
        for k, n in part['inconclusive'].items():
            self.inconclusive[k] += n
        for t, c in part['tables'].items():
            tab = self.tables.setdefault(t, collections.Counter())
            for k, n in c.items():
                tab[k] += n
        for s in part['samples']:
            self.sample(s)

    # --- finish
    def finish(self, rule, assumptions=(), extra=None, exhaustive=False, min_events=1, observed=None):
        wall = time.time() - self.t0
        cov = {
            'evaluations': int(self.evaluations),
            'distinct_nontrivial': len(self.nontrivial) if not isinstance(self.nontrivial, int) else self.nontrivial,
            'rule': rule,
            'samples': self.samples[:10] or ['(none)'],
            'inconclusive': dict(self.inconclusive),
            'known_findings_hit': {k: v[1] for k, v in self.known_hit.items()},
            'violation_keys': list(self.violations.keys()),
        }
        if exhaustive:
            cov['exhaustive'] = True
        for t, c in self.tables.items():
            cov[t] = dict(sorted(c.items(), key=lambda kv: str(kv[0]))) if len(c) <= 3000 else {'distinct': len(c), 'top': dict(c.most_common(60))}
        if extra:
            cov.update(extra)
        ev = {
            'property_id': self.prop, 'tier': self.tier, 'seed': seed(), 'level': self.level,
            'coverage': cov, 'assumptions': list(assumptions), 'wall_s': round(wall, 2),
            'violations': len(self.violations),
        }
        # VERIF_OUT redirects evidence/replay output (used when the checks are pointed at a scratch copy of the tree,
        # e.g. by tools/run_seeded.py, so that the committed evidence of /repo itself is not overwritten)
        outbase = os.environ.get('VERIF_OUT', VERIF)
        os.makedirs(os.path.join(outbase, 'evidence'), exist_ok=True)
        tmp = os.path.join(outbase, 'evidence', '.%s.json.tmp' % self.prop)
        with open(tmp, 'w') as fh:
            json.dump(ev, fh, indent=1, default=str)
        os.replace(tmp, os.path.join(outbase, 'evidence', '%s.json' % self.prop))
        for k, (d, n, w) in self.known_hit.items():
            print('KNOWN-FINDING: property=%s %s [key=%s, %d case(s)]' % (self.prop, d, k, n))
        rc = 0
        if self.violations:
            rdir = os.path.join(outbase, 'replay', self.prop)
            os.makedirs(rdir, exist_ok=True)
            for k, ws in self.violations.items():
                fn = os.path.join(rdir, re.sub(r'[^A-Za-z0-9_.-]+', '_', k)[:120] + '.json')
                with open(fn, 'w') as fh:
                    json.dump({'property': self.prop, 'key': k, 'seed': seed(), 'tier': self.tier, 'witnesses': ws}, fh, indent=1, default=str)
                print('VIOLATION property=%s replay=%s' % (self.prop, fn))
                print('  key=%s' % k)
                print('  witness=%s' % (json.dumps(ws[0], default=str)[:1500]))
            rc = 1
        total_inc = sum(self.inconclusive.values())
        obs = self.evaluations if observed is None else observed
        if rc == 0:
            if obs < min_events:
                print('INCONCLUSIVE property=%s observed only %d events (< %d)' % (self.prop, obs, min_events))
                rc = 2
            elif self.evaluations and total_inc > 0.01 * self.evaluations + 2:
                print('INCONCLUSIVE property=%s %d of %d cases inconclusive: %s' % (self.prop, total_inc, self.evaluations, dict(self.inconclusive)))
                rc = 2
        print('[%s %s seed=%d] evaluations=%d nontrivial=%d violations=%d known=%d inconclusive=%d wall=%.1fs' % (
            self.prop, self.tier, seed(), self.evaluations, cov['distinct_nontrivial'], len(self.violations), len(self.known_hit), total_inc, wall))
        return rc


class Partial:
    """Picklable per-worker accumulator, merged into the Reporter."""

    def __init__(self):
        self.evaluations = 0
        self.nontrivial = set()
        self.violations = []
        self.vcount = collections.Counter()
        self.inconclusive = collections.Counter()
        self.tables = {}
        self.samples = []

    def violation(self, key, witness):
        self.vcount[key] += 1
        if self.vcount[key] <= 3:
            self.violations.append((key, witness))
        else:
            self.violations.append((key, None)) if self.vcount[key] < 50 else None

    def inconc(self, why):
        self.inconclusive[why] += 1

    def count(self, table, key, n=1):
        self.tables.setdefault(table, collections.Counter())[key] += n

    def sample(self, s, limit=3):
        if len(self.samples) < limit:
            self.samples.append(s)

    def dump(self):
        return {'evaluations': self.evaluations, 'nontrivial': self.nontrivial, 'violations': [(k, w) for k, w in self.violations],
                'inconclusive': dict(self.inconclusive), 'tables': {t: dict(c) for t, c in self.tables.items()}, 'samples': self.samples}


def parallel(fn, jobs, nproc=None):
    """Run fn(job) over jobs in a process pool; yields results. Worker exceptions are re-raised (exit 2)."""
    nproc = nproc or NPROC
    if nproc <= 1 or len(jobs) <= 1:
        for j in jobs:
            yield fn(j)
        return
    # (ProcessPoolExecutor, not multiprocessing.Pool: when a worker process dies - e.g. killed by the kernel for want of memory -
    # a Pool silently replaces it and waits for the lost job for ever; the executor raises BrokenProcessPool, which ends the
    # check as a harness failure, exit status 2)
    import concurrent.futures
    ctx = multiprocessing.get_context('fork')
    with concurrent.futures.ProcessPoolExecutor(max_workers=min(nproc, len(jobs)), mp_context=ctx) as pool:
        futs = [pool.submit(fn, j) for j in jobs]
        for f in concurrent.futures.as_completed(futs):
            yield f.result()


def nt_hash(*parts):
    return hashlib.blake2b(repr(parts).encode(), digest_size=8).digest()


def hexs(b):
    return b.hex() if b else '-'


def items(lst):
    return ','.join(hexs(x) for x in lst) if lst else '.'


def parse_items(s):
    if s == '.':
        return []
    return [b'' if x == '-' else bytes.fromhex(x) for x in s.split(',')]


def main_wrapper(fn):
    """Runs a check's main(); harness/infra failures become exit 2, never 0 or 1."""
    try:
        rc = fn()
    except vbuild.BuildError as e:
        print('HARNESS-FAILURE build: %s' % e)
        rc = 2
    except SystemExit as e:
        raise
    except BaseException:
        traceback.print_exc()
        print('HARNESS-FAILURE exception in check')
        rc = 2
    sys.stdout.flush()
    sys.exit(rc)
