"""Drivers for the real binaries (btcdeb, btcc, tap) with exact control of what is a terminal."""
import os, pty, select, subprocess, time, signal, json, re, errno, fcntl, termios, struct
from vf.common import san_env, read_san_logs, clear_san_logs, crash_key


class Result:
    def __init__(self):
        self.argv = None
        self.stdin = b''
        self.stdout = b''
        self.stderr = b''
        self.rc = None        # exit status, or None
        self.sig = None       # terminating signal
        self.timeout = False
        self.sanlog = ''
        self.mode = ''
        self.flood = False

    @property
    def abnormal(self):
        return self.sig is not None or self.timeout or bool(self.sanlog.strip()) or (self.rc is not None and self.rc >= 126)

    def crash_key(self, tool):
        if self.flood:
            return '%s:output-flood' % tool
        if self.timeout:
            return '%s:hang' % tool
        sig = self.sig if self.sig is not None else self.rc
        return crash_key(tool, sig, self.sanlog, self.stderr.decode('latin1', 'replace')[-6000:])

    def brief(self):
        return dict(argv=self.argv, stdin=self.stdin.decode('latin1')[:2000], rc=self.rc, sig=self.sig, timeout=self.timeout, mode=self.mode,
                    stdout=self.stdout.decode('latin1', 'replace')[-1500:], stderr=self.stderr.decode('latin1', 'replace')[-1500:], sanlog=self.sanlog[-2500:])


def _set_winsize(fd, rows=50, cols=250):
    try:
        fcntl.ioctl(fd, termios.TIOCSWINSZ, struct.pack('HHHH', rows, cols, 0, 0))
    except OSError:
        pass


def run(argv, workdir, stdin=b'', mode='pipe', timeout=20, extra_env=None, retry_timeout=True, rlimit_as=None):
    """mode: 'pipe'      stdin pipe, stdout pipe            (both non-terminal)
             'ptyin'     stdin pty,  stdout pipe            (script on argv)
             'ptyout'    stdin pipe, stdout pty
             'pty'       both ptys (true interactive; stdin bytes are typed, then EOF)
             'repl'      pipes + BTCDEB_VERIF_REPL=1 (scripted REPL hook)
    stderr is always a pipe."""
    logdir = os.path.join(workdir, 'san')
    os.makedirs(logdir, exist_ok=True)
    # wall-clock limits are watchdogs only: a timeout is re-run with a four times longer limit (the machine may just be
    # loaded); only a second timeout is reported as a hang
    for attempt in (0, 1):
        clear_san_logs(logdir)
        r = _run_once(argv, workdir, stdin, mode, timeout if attempt == 0 else timeout * 4, extra_env, logdir, rlimit_as)
        if not r.timeout or not retry_timeout or attempt == 1 or r.flood:
            return r
    return r


def _run_once(argv, workdir, stdin, mode, timeout, extra_env, logdir, rlimit_as=None):
    res = Result()
    res.argv = list(argv)
    res.stdin = stdin
    res.mode = mode
    env = san_env(logdir, extra_env)
    if mode == 'repl':
        env['BTCDEB_VERIF_REPL'] = '1'
    masters = []
    in_r = in_w = out_r = out_w = None
    if mode in ('ptyin', 'pty'):
        m, s = pty.openpty()
        _set_winsize(m)
        # raw-ish: no echo so that typed bytes do not come back on the master
        attrs = termios.tcgetattr(s)
        attrs[3] = attrs[3] & ~termios.ECHO
        termios.tcsetattr(s, termios.TCSANOW, attrs)
        in_r, in_w = s, m
        masters.append(m)
    else:
        in_r, in_w = os.pipe()
    if mode in ('ptyout', 'pty'):
        m, s = pty.openpty()
        _set_winsize(m)
        out_r, out_w = m, s
        masters.append(m)
    else:
        out_r, out_w = os.pipe()
    err_r, err_w = os.pipe()
    t0 = time.time()
    pre = None
    if rlimit_as:
        # resource fault injection: an address-space ceiling (plain builds only - the sanitizer runtimes reserve terabytes)
        import resource

        def pre():
            resource.setrlimit(resource.RLIMIT_AS, (rlimit_as, rlimit_as))
    p = subprocess.Popen(argv, cwd=workdir, env=env, stdin=in_r, stdout=out_w, stderr=err_w, close_fds=True, start_new_session=True, preexec_fn=pre)
    os.close(out_w)
    os.close(err_w)
    if mode not in ('ptyin', 'pty'):
        os.close(in_r)
    # feed stdin
    to_write = stdin
    if mode in ('ptyin', 'pty'):
        to_write = stdin + b'\x04' if mode == 'pty' else stdin
    out = bytearray()
    err = bytearray()
    fds = {out_r: out, err_r: err}
    wfd = in_w
    for fd in list(fds) + [wfd]:
        fl = fcntl.fcntl(fd, fcntl.F_GETFL)
        fcntl.fcntl(fd, fcntl.F_SETFL, fl | os.O_NONBLOCK)
    deadline = t0 + timeout
    eof_sent = False
    while fds:
        now = time.time()
        if now > deadline:
            res.timeout = True
            break
        wl = [wfd] if (wfd is not None and to_write) else []
        try:
            rl, wl2, _ = select.select(list(fds), wl, [], 0.25)
        except InterruptedError:
            continue
        for fd in rl:
            try:
                d = os.read(fd, 65536)
            except OSError as e:
                if e.errno in (errno.EAGAIN, errno.EWOULDBLOCK):
                    continue
                d = b''
            if not d:
                del fds[fd]
            else:
                fds[fd] += d
                if len(fds[fd]) > 64_000_000:
                    # not a hang: the process is flooding its output; the run is cut and reported as such (inconclusive, not a verdict)
                    res.flood = True
                    res.timeout = True
                    fds.clear()
                    break
        for fd in wl2:
            try:
                n = os.write(fd, to_write[:4096])
                to_write = to_write[n:]
            except OSError as e:
                if e.errno in (errno.EAGAIN, errno.EWOULDBLOCK):
                    continue
                to_write = b''
        if wfd is not None and not to_write and mode not in ('ptyin', 'pty'):
            os.close(wfd)
            wfd = None
        if p.poll() is not None and not rl:
            # process gone and nothing more readable
            break
    if res.timeout:
        try:
            os.killpg(p.pid, signal.SIGKILL)
        except OSError:
            pass
    try:
        p.wait(timeout=5)
    except subprocess.TimeoutExpired:
        try:
            os.killpg(p.pid, signal.SIGKILL)
        except OSError:
            pass
        p.wait()
    # drain what is left
    for fd, buf in list(fds.items()):
        try:
            while True:
                d = os.read(fd, 65536)
                if not d:
                    break
                buf += d
        except OSError:
            pass
    for fd in [out_r, err_r, wfd] + ([in_r] if mode in ('ptyin', 'pty') else []):
        if fd is not None:
            try:
                os.close(fd)
            except OSError:
                pass
    rc = p.returncode
    if rc is not None and rc < 0:
        res.sig = -rc
    else:
        res.rc = rc
    if res.timeout:
        res.sig = None
        res.rc = None
    res.stdout = bytes(out)
    res.stderr = bytes(err)
    res.sanlog = read_san_logs(logdir)
    return res


_ANSI = re.compile(rb'\x1b\[[0-9;?]*[A-Za-z]')


def clean_tty(b):
    return _ANSI.sub(b'', b).replace(b'\r\n', b'\n').replace(b'\r', b'')


def repl_session(btcdeb, args, commands, workdir, timeout=30, extra_env=None):
    """Run btcdeb through the scripted-REPL hook. `commands` is a list of command lines; after each one a
    `vdump <n>` is issued so that the output stream can be cut into per-command segments.
    Returns (Result, segments) where segments[i] = dict(cmd, out (text between the previous vdump and this one), dump (json))
    segments[0] is the start-up segment (cmd None)."""
    lines = ['vdump 0']
    for i, c in enumerate(commands):
        lines.append(c)
        lines.append('vdump %d' % (i + 1))
    stdin = ('\n'.join(lines) + '\n').encode()
    r = run([btcdeb] + list(args), workdir, stdin=stdin, mode='repl', timeout=timeout, extra_env=extra_env)
    text = r.stdout.decode('latin1', 'replace')
    segs = []
    pos = 0
    cmds = [None] + list(commands)
    for m in re.finditer(r'^.*?VDUMP (\{.*\})\s*$', text, re.M):
        try:
            d = json.loads(m.group(1))
        except ValueError:
            continue
        idx = len(segs)
        segs.append(dict(cmd=cmds[idx] if idx < len(cmds) else None, out=text[pos:m.start()], dump=d))
        pos = m.end()
    r.tail = text[pos:]
    return r, segs
